#!/usr/bin/env bash
# det.sh <property> [max_cases]: determinism proof for one engine. Runs the quick tier
# (optionally capped) twice, with 16 and with 3 workers, in separate processes,
# dumps (index, case hash, event-log hash, verdict key) per case and diffs the dumps.
set -u
ROOT="$(cd "$(dirname "${BASH_SOURCE[0]}")" && pwd)"
PROP="$1"; MAX="${2:-400000}"
OUT=/dev/shm/verif-sim/det; mkdir -p "$OUT"
for w in 16 3; do
  VERIF_WORKERS=$w VERIF_MAX_CASES=$MAX VERIF_DUMP="$OUT/$PROP-w$w.dump" "$ROOT/run.sh" "$PROP" quick >/dev/null 2>&1
done
if cmp -s "$OUT/$PROP-w16.dump" "$OUT/$PROP-w3.dump"; then
  echo "DETERMINISTIC property=$PROP cases=$(wc -l < "$OUT/$PROP-w16.dump") (16 workers vs 3 workers, byte-identical dumps)"
  rm -f "$OUT/$PROP-w16.dump" "$OUT/$PROP-w3.dump"; exit 0
else
  echo "NONDETERMINISTIC property=$PROP"; diff "$OUT/$PROP-w16.dump" "$OUT/$PROP-w3.dump" | head -10; exit 1
fi
