#!/usr/bin/env bash
# Build every engine once, offline, from files on disk.
set -u
ROOT="$(cd "$(dirname "${BASH_SOURCE[0]}")" && pwd)"
export CARGO_NET_OFFLINE=true
unset RUSTFLAGS 2>/dev/null || true
cd "$ROOT/sim" || exit 2
fail=0
CARGO_TARGET_DIR="$ROOT/target/plain" cargo build --offline --release -p sim_pb || fail=1
CARGO_TARGET_DIR="$ROOT/target/plain" cargo build --offline --profile ship -p sim_pb || fail=1
CARGO_TARGET_DIR="$ROOT/target/plain" cargo build --offline --release -p sim_iter || fail=1
CARGO_TARGET_DIR="$ROOT/target/plain" cargo build --offline --release -p sim_generator || fail=1
CARGO_TARGET_DIR="$ROOT/target/plain" cargo build --offline --release -p sim_serialize || fail=1
CARGO_TARGET_DIR="$ROOT/target/plain" cargo build --offline --profile ship -p sim_serialize || fail=1
RUSTFLAGS="--cfg rten_verif" CARGO_TARGET_DIR="$ROOT/target/a" cargo build --offline --release -p sim_load || fail=1
RUSTFLAGS="--cfg rten_verif" CARGO_TARGET_DIR="$ROOT/target/a" cargo build --offline --profile ship -p sim_load || fail=1
CARGO_TARGET_DIR="$ROOT/target/plain" cargo build --offline --release -p sim_extdata || fail=1
RUSTFLAGS="--cfg rten_verif" CARGO_TARGET_DIR="$ROOT/target/a" cargo build --offline --release -p sim_exec || fail=1
RUSTFLAGS='--cfg rten_verif="shuttle_pool"' CARGO_TARGET_DIR="$ROOT/target/c" cargo build --offline --release -p sim_pool || fail=1
( MIRIFLAGS="-Zmiri-many-seeds=0..1" CARGO_TARGET_DIR="$ROOT/target/miri" cargo +nightly miri run --offline -p sim_pool_miri -- 1 0 1 >/dev/null 2>&1 ) || fail=1
( cd "$ROOT/sim/shadow" && python3 gen_shadow.py && RUSTFLAGS='--cfg rten_verif --cfg rten_verif="shuttle_plan"' CARGO_TARGET_DIR="$ROOT/target/b" cargo build --offline --release -p sim_session ) || fail=1
exit $fail
