#!/usr/bin/env bash
# run.sh <property> quick|thorough            rebuild from /repo, explore, write evidence
# run.sh <property> --replay <file>           rebuild from /repo, run exactly that case
# exit 0 = held on everything explored; 1 = VIOLATION line printed; 2 = harness error
set -u
ROOT="$(cd "$(dirname "${BASH_SOURCE[0]}")" && pwd)"
export VERIF_ROOT="$ROOT"
export CARGO_NET_OFFLINE=true
unset RTEN_USE_POOL RTEN_TIMING RTEN_NUM_THREADS RTEN_INFER_SHAPES_DEBUG RUSTFLAGS 2>/dev/null || true
PROP="${1:-}"; MODE="${2:-quick}"
[ -n "$PROP" ] || { echo "usage: run.sh <property> quick|thorough|--replay <file>" >&2; exit 2; }
case "$PROP" in
  C38) ENGINE=sim_pb;   SET=plain; DUAL=1 ;;
  C07) ENGINE=sim_iter; SET=plain ;;
  C32) ENGINE=sim_generator; SET=plain ;;
  C34) ENGINE=sim_serialize; SET=plain; DUAL=1 ;;
  C05) ENGINE=sim_load; SET=a; DUAL=1; export RTEN_NUM_THREADS=2 ;;
  C21) ENGINE=sim_extdata; SET=plain; export RTEN_NUM_THREADS=2 ;;
  C02|C24|C25) ENGINE=sim_exec; SET=a; export RTEN_NUM_THREADS=1 ;;
  *) echo "HARNESS-ERROR: no engine for property $PROP" >&2; exit 2 ;;
esac
TDIR="$ROOT/target/$SET"
build() { # profile
  local profile="$1" log="$ROOT/target/build-$ENGINE-$1.log"
  mkdir -p "$ROOT/target"
  local flags=""
  case "$SET" in
    a) flags="--cfg rten_verif" ;;
  esac
  if ! ( cd "$ROOT/sim" && RUSTFLAGS="$flags" CARGO_TARGET_DIR="$TDIR" cargo build --offline --profile "$profile" -p "$ENGINE" >"$log" 2>&1 ); then
    echo "HARNESS-ERROR: build of $ENGINE ($profile) failed; see $log" >&2
    tail -n 30 "$log" >&2
    exit 2
  fi
}
build release
ARGS=()
if [ "${DUAL:-0}" = 1 ]; then
  build ship
  ARGS+=(--alt-exe "ship=$TDIR/ship/$ENGINE")
fi
BIN="$TDIR/release/$ENGINE"
if [ "$MODE" = "--replay" ]; then
  FILE="${3:-}"; [ -f "$FILE" ] || { echo "HARNESS-ERROR: replay file '$FILE' not found" >&2; exit 2; }
  exec "$BIN" replay --property "$PROP" "${ARGS[@]}" "$FILE"
fi
case "$MODE" in quick|thorough) ;; *) echo "HARNESS-ERROR: unknown mode $MODE" >&2; exit 2 ;; esac
exec "$BIN" batch --property "$PROP" --tier "$MODE" "${ARGS[@]}"
