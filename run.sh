#!/usr/bin/env bash
# run.sh <property> quick|thorough            rebuild from /repo, explore, write evidence
# run.sh <property> --replay <file>           rebuild from /repo, run exactly that case
# exit 0 = held on everything explored; 1 = VIOLATION line printed; 2 = harness error
set -u
ROOT="$(cd "$(dirname "${BASH_SOURCE[0]}")" && pwd)"
export VERIF_ROOT="$ROOT"
export CARGO_NET_OFFLINE=true
unset RTEN_USE_POOL RTEN_TIMING RTEN_NUM_THREADS RTEN_INFER_SHAPES_DEBUG RUSTFLAGS SHUTTLE_RANDOM_SEED 2>/dev/null || true
PROP="${1:-}"; MODE="${2:-quick}"
[ -n "$PROP" ] || { echo "usage: run.sh <property> quick|thorough|--replay <file>" >&2; exit 2; }
case "$PROP" in
  C38) ENGINE=sim_pb;   SET=plain; DUAL=1 ;;
  C07) ENGINE=sim_iter; SET=plain ;;
  C32) ENGINE=sim_generator; SET=plain ;;
  C34) ENGINE=sim_serialize; SET=plain; DUAL=1 ;;
  C05) ENGINE=sim_load; SET=a; DUAL=1; export RTEN_NUM_THREADS=2 ;;
  C21) ENGINE=sim_extdata; SET=plain; export RTEN_NUM_THREADS=2 ;;
  C02|C24|C25) ENGINE=sim_exec; SET=a; export RTEN_NUM_THREADS=1 ;;
  C23) ENGINE=sim_pool; SET=c ;;
  C22) ENGINE=sim_session; SET=b; export RAYON_NUM_THREADS=2 ;;
  *) echo "HARNESS-ERROR: no engine for property $PROP" >&2; exit 2 ;;
esac
TDIR="$ROOT/target/$SET"
build() { # profile
  local profile="$1" log="$ROOT/target/build-$ENGINE-$1.log"
  mkdir -p "$ROOT/target"
  local flags=""
  case "$SET" in
    a) flags="--cfg rten_verif" ;;
    c) flags="--cfg rten_verif=\"shuttle_pool\"" ;;
    b) flags="--cfg rten_verif --cfg rten_verif=\"shuttle_plan\"" ;;
  esac
  local ws="$ROOT/sim"
  if [ "$SET" = b ]; then
    # shadow workspace: rten built from /repo/src with the Shuttle dependency added (manifest generated from /repo's)
    ws="$ROOT/sim/shadow"
    if ! ( cd "$ws" && python3 gen_shadow.py >"$log" 2>&1 ); then echo "HARNESS-ERROR: could not generate the shadow manifest; see $log" >&2; exit 2; fi
  fi
  if ! ( cd "$ws" && RUSTFLAGS="$flags" CARGO_TARGET_DIR="$TDIR" cargo build --offline --profile "$profile" -p "$ENGINE" >"$log" 2>&1 ); then
    echo "HARNESS-ERROR: build of $ENGINE ($profile) failed; see $log" >&2
    tail -n 30 "$log" >&2
    exit 2
  fi
}
build release
ARGS=()
if [ "${DUAL:-0}" = 1 ]; then
  build ship
  ARGS+=(--alt-exe "ship=$TDIR/ship/$ENGINE")
fi
BIN="$TDIR/release/$ENGINE"

# C23 has a second back end: the same pool scenarios with std primitives under
# Miri's seeded scheduler (double free, wrong-layout free, leaks, data races).
miri_step() { # verif_seed first count seeds -> 0 ok / 1 UB found / 2 harness error
  local vseed="$1" first="$2" count="$3" seeds="$4" log="$ROOT/target/miri-C23-$2.log"
  ( cd "$ROOT/sim" && MIRIFLAGS="-Zmiri-many-seeds=$seeds -Zmiri-preemption-rate=0.1" CARGO_TARGET_DIR="$ROOT/target/miri" \
      cargo +nightly miri run --offline -p sim_pool_miri -- "$vseed" "$first" "$count" >"$log" 2>&1 )
  local rc=$?
  if grep -q "Undefined Behavior\|MODEL-VIOLATION\|memory leaked\|Data race\|data race" "$log"; then return 1; fi
  if [ $rc -ne 0 ] && ! grep -q "^ok scenarios" "$log"; then echo "HARNESS-ERROR: miri step failed; see $log" >&2; tail -n 20 "$log" >&2; return 2; fi
  return 0
}
miri_replay_file() { # vseed first count seeds
  mkdir -p "$ROOT/replays/C23"
  local f="$ROOT/replays/C23/miri-s$1-w$2.json"
  printf '{"property":"C23","engine":"sim_pool_miri","verif_seed":%s,"first_scenario":%s,"scenario_count":%s,"miri_seeds":"%s","finding_key":"C23/miri-undefined-behaviour","note":"re-run with: ./run.sh C23 --replay %s; the Miri report is in target/miri-C23-%s.log"}\n' "$1" "$2" "$3" "$4" "$f" "$2" > "$f"
  echo "$f"
}

if [ "$MODE" = "--replay" ] && [ "$PROP" = C23 ] && grep -q '"engine":"sim_pool_miri"' "${3:-/dev/null}" 2>/dev/null; then
  FILE="$3"
  vs=$(python3 -c "import json,sys;d=json.load(open(sys.argv[1]));print(d['verif_seed'],d['first_scenario'],d['scenario_count'],d['miri_seeds'])" "$FILE") || exit 2
  set -- $vs
  miri_step "$1" "$2" "$3" "$4"; rc=$?
  if [ $rc -eq 1 ]; then echo "VIOLATION property=C23 replay=$FILE"; grep -m3 "Undefined Behavior\|MODEL-VIOLATION\|memory leaked\|ata race" "$ROOT/target/miri-C23-$2.log"; exit 1; fi
  [ $rc -eq 0 ] && echo "replay: no violation (property C23 holds on this case)"
  exit $rc
fi
if [ "$MODE" = "--replay" ]; then
  FILE="${3:-}"; [ -f "$FILE" ] || { echo "HARNESS-ERROR: replay file '$FILE' not found" >&2; exit 2; }
  exec "$BIN" replay --property "$PROP" "${ARGS[@]}" "$FILE"
fi
case "$MODE" in quick|thorough) ;; *) echo "HARNESS-ERROR: unknown mode $MODE" >&2; exit 2 ;; esac
if [ "$PROP" != C23 ]; then
  exec "$BIN" batch --property "$PROP" --tier "$MODE" "${ARGS[@]}"
fi
"$BIN" batch --property "$PROP" --tier "$MODE" "${ARGS[@]}"; RC=$?
[ $RC -eq 2 ] && exit 2
VS="${VERIF_SEED:-1}"
case "$MODE" in quick) WINDOWS=1; COUNT=8; SEEDS="0..64" ;; *) WINDOWS=16; COUNT=16; SEEDS="0..128" ;; esac
T0=$(date +%s); MIRI_RUNS=0; MIRI_BAD=0
for w in $(seq 0 $((WINDOWS-1))); do
  first=$((w*COUNT))
  miri_step "$VS" "$first" "$COUNT" "$SEEDS"; mrc=$?
  [ $mrc -eq 2 ] && exit 2
  MIRI_RUNS=$((MIRI_RUNS+1))
  if [ $mrc -eq 1 ]; then
    MIRI_BAD=$((MIRI_BAD+1)); RC=1
    f=$(miri_replay_file "$VS" "$first" "$COUNT" "$SEEDS")
    echo "VIOLATION property=C23 replay=$f"
    grep -m3 "Undefined Behavior\|MODEL-VIOLATION\|memory leaked\|ata race" "$ROOT/target/miri-C23-$first.log" | sed 's/^/  /'
  fi
done
T1=$(date +%s)
SEEDN=${SEEDS#0..}
echo "[sim_pool_miri] windows=$MIRI_RUNS scenarios_per_window=$COUNT miri_seeds=$SEEDS executions=$((MIRI_RUNS*COUNT*SEEDN)) failing_windows=$MIRI_BAD wall_s=$((T1-T0))"
if [ -z "${VERIF_DUMP:-}" ]; then
python3 - "$ROOT/evidence/C23.json" "$MIRI_RUNS" "$COUNT" "$SEEDS" "$MIRI_BAD" "$((T1-T0))" <<'PY' || { echo "HARNESS-ERROR: could not update evidence" >&2; exit 2; }
import json,sys
p,runs,count,seeds,bad,wall=sys.argv[1],int(sys.argv[2]),int(sys.argv[3]),sys.argv[4],int(sys.argv[5]),float(sys.argv[6])
e=json.load(open(p)); n=int(seeds.split('..')[1])
e['coverage']['miri_backend']={'scenario_windows':runs,'scenarios_per_window':count,'miri_scheduler_seeds':seeds,'executions':runs*count*n,'failing_windows':bad,'wall_s':wall,'decides':'double free, deallocation with a different layout, leaked returned buffers, data races on a buffer held twice (std primitives, real threads, Miri seeded scheduler with preemption rate 0.1)'}
e['violations']=e.get('violations',0)+bad
e['wall_s']=e.get('wall_s',0)+wall
json.dump(e,open(p,'w'),indent=1)
PY
fi
exit $RC
