#!/usr/bin/env bash
# seeded_eval.sh <property> <patch.diff> [tier] [keep-dir]: apply a seeded change to /repo,
# run the property's check (no evidence written, replays into a scratch dir), restore /repo.
# Prints CAUGHT / MISSED / ERROR with the violation keys; with keep-dir, copies the
# minimised replay files and a result.txt there. One instance at a time (it edits /repo).
set -u
ROOT="$(cd "$(dirname "${BASH_SOURCE[0]}")" && pwd)"
PROP="$1"; PATCH="$(readlink -f "$2")"; TIER="${3:-quick}"; KEEP="${4:-}"
exec 9>/tmp/seeded_eval.lock; flock 9
[ -z "$(git -C /repo status --porcelain)" ] || { echo "ERROR: /repo is not clean"; exit 2; }
git -C /repo apply --check "$PATCH" || { echo "ERROR: patch does not apply"; exit 2; }
git -C /repo apply "$PATCH"
OUT="$(mktemp)"; RDIR="$(mktemp -d)"
( cd "$ROOT" && VERIF_NO_EVIDENCE=1 VERIF_REPLAYS_DIR="$RDIR" timeout 3600 ./run.sh "$PROP" "$TIER" ) >"$OUT" 2>&1; RC=$?
git -C /repo checkout -- . ; git -C /repo clean -fdq 2>/dev/null
{
case $RC in
  0) echo "MISSED property=$PROP tier=$TIER patch=$PATCH" ;;
  1) echo "CAUGHT property=$PROP tier=$TIER patch=$PATCH"; grep -E "^  key=" "$OUT" | cut -c1-300 ;;
  *) echo "ERROR rc=$RC property=$PROP tier=$TIER patch=$PATCH"; tail -n 15 "$OUT" ;;
esac
grep -E "^\[sim_[a-z_]+\] (evaluations|windows)" "$OUT" | tail -2
} | tee "$RDIR/result.txt"
if [ -n "$KEEP" ]; then mkdir -p "$KEEP"; cp "$RDIR/result.txt" "$KEEP/check-$PROP-$TIER.txt"; find "$RDIR" -name '*.json' | head -3 | while read f; do cp "$f" "$KEEP/"; done; fi
rm -rf "$OUT" "$RDIR"
exit 0
