//! Miri back end of the C23 check: the same buffer-pool scenarios as `sim_pool`,
//! with std primitives and real threads, run under Miri's seeded scheduler
//! (`-Zmiri-many-seeds`). Miri decides what the Shuttle back end cannot see:
//! double free, deallocation with a layout other than the allocation's, leaks of
//! returned buffers, data races on a buffer handed to two holders.
//!
//! usage: sim_pool_miri <verif_seed> <first_scenario> <count>

#[path = "/repo/src/buffer_pool.rs"]
mod buffer_pool;
#[path = "../../sim_pool/src/scenario.rs"]
mod scenario;
#[path = "../../sim_pool/src/genscn.rs"]
mod genscn;

use std::sync::{Arc, Mutex};

fn main() {
    let args: Vec<String> = std::env::args().collect();
    let seed: u64 = args.get(1).and_then(|s| s.parse().ok()).unwrap_or(1);
    let first: u64 = args.get(2).and_then(|s| s.parse().ok()).unwrap_or(0);
    let count: u64 = args.get(3).and_then(|s| s.parse().ok()).unwrap_or(2);
    for i in first..first + count {
        let mut r = simcore::rng::Rng::new(simcore::rng::case_seed(seed, 2323, i));
        let sc = genscn::scenario(&mut r, true);
        let model = Arc::new(Mutex::new(scenario::PoolModel::default()));
        scenario::run(&sc, model.clone());
        let m = model.lock().unwrap();
        if let Some((k, d)) = m.violations.first() {
            eprintln!("MODEL-VIOLATION scenario={i} key={k} {d}");
            std::process::exit(3);
        }
    }
    println!("ok scenarios {first}..{}", first + count);
}
