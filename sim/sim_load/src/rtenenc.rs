//! A `.rten` writer owned by the harness, built on the public
//! `rten_model_file::schema` + `flatbuffers`. Unlike the in-tree test builder it
//! can *lie*: constant shapes that disagree with the data, huge dimensions,
//! out-of-range data offsets, header fields pointing anywhere.

use flatbuffers::{FlatBufferBuilder, WIPOffset};
use rten_model_file::header::Header;
use rten_model_file::schema as sg;
use serde::{Deserialize, Serialize};

#[derive(Clone, Debug, Serialize, Deserialize, PartialEq)]
pub enum RDim {
    Fixed(u32),
    Sym(String),
}

#[derive(Clone, Debug, Serialize, Deserialize, PartialEq)]
pub enum ROp {
    Add,
    Mul,
    Sub,
    Relu,
    MatMul,
    Identity,
    If { then_branch: RGraph, else_branch: RGraph },
    Loop { body: RGraph },
}

#[derive(Clone, Debug, Serialize, Deserialize, PartialEq)]
pub enum RNode {
    Value { name: String, shape: Option<Vec<RDim>>, dtype: Option<u8> },
    /// `dtype`: 0 = i32, 1 = f32, 2 = i8, 3 = u8. `data_len` elements are
    /// written, whatever `shape` says.
    Const { name: String, shape: Vec<u32>, dtype: u8, data_len: usize, data_offset_override: Option<u64>, drop_dtype_field: bool },
    Op { name: String, op: ROp, inputs: Vec<i32>, outputs: Vec<i32> },
}

#[derive(Clone, Debug, Default, Serialize, Deserialize, PartialEq)]
pub struct RGraph {
    pub nodes: Vec<RNode>,
    pub inputs: Vec<u32>,
    pub outputs: Vec<u32>,
    pub captures: Option<Vec<u32>>,
}

#[derive(Clone, Debug, Serialize, Deserialize, PartialEq)]
pub struct RModel {
    pub v2: bool,
    pub schema_version: i32,
    pub graph: RGraph,
    /// Header lies (V2 only): replace a header field after serialisation.
    pub model_offset_override: Option<u64>,
    pub model_len_override: Option<u64>,
    pub tensor_data_offset_override: Option<u64>,
}

struct TensorData {
    data: Vec<u8>,
}

impl TensorData {
    fn add(&mut self, elem_size: usize, n: usize, fill: u8) -> u64 {
        let off = self.data.len().next_multiple_of(elem_size.max(1));
        self.data.resize(off, 0);
        for i in 0..n * elem_size {
            self.data.push(fill.wrapping_add(i as u8));
        }
        off as u64
    }
}

fn write_graph<'a>(b: &mut FlatBufferBuilder<'a>, g: &RGraph, td: &mut Option<TensorData>) -> WIPOffset<sg::Graph<'a>> {
    let mut nodes = Vec::new();
    for (ni, node) in g.nodes.iter().enumerate() {
        let (name, kind, data) = match node {
            RNode::Value { name, shape, dtype } => {
                let shape = shape.as_ref().map(|dims| {
                    let v: Vec<_> = dims
                        .iter()
                        .map(|d| match d {
                            RDim::Fixed(x) => sg::Dim::create(b, &sg::DimArgs { value: *x, name: None }),
                            RDim::Sym(s) => {
                                let n = b.create_string(s);
                                sg::Dim::create(b, &sg::DimArgs { value: 0, name: Some(n) })
                            }
                        })
                        .collect();
                    b.create_vector(&v)
                });
                let dtype = dtype.map(|d| match d {
                    0 => sg::DataType::Int32,
                    1 => sg::DataType::Float,
                    2 => sg::DataType::Int8,
                    _ => sg::DataType::UInt8,
                });
                let v = sg::ValueNode::create(b, &sg::ValueNodeArgs { shape, dtype });
                (name.clone(), sg::NodeKind::ValueNode, v.as_union_value())
            }
            RNode::Const { name, shape, dtype, data_len, data_offset_override, drop_dtype_field } => {
                let shape_vec = b.create_vector(&shape[..]);
                let cdt = match dtype {
                    0 => sg::ConstantDataType::Int32,
                    1 => sg::ConstantDataType::Float32,
                    2 => sg::ConstantDataType::Int8,
                    _ => sg::ConstantDataType::UInt8,
                };
                let fill = (ni as u8).wrapping_mul(17).wrapping_add(1);
                let args = if let Some(td) = td.as_mut() {
                    let es = if *dtype < 2 { 4 } else { 1 };
                    let off = td.add(es, *data_len, fill);
                    sg::ConstantNodeArgs { shape: Some(shape_vec), data_type: sg::ConstantData::NONE, data: None, dtype: if *drop_dtype_field { None } else { Some(cdt) }, data_offset: Some(data_offset_override.unwrap_or(off)) }
                } else {
                    let (dt, data) = match dtype {
                        0 => {
                            let v: Vec<i32> = (0..*data_len).map(|i| fill as i32 + i as i32).collect();
                            let dv = b.create_vector(&v);
                            (sg::ConstantData::Int32Data, sg::Int32Data::create(b, &sg::Int32DataArgs { data: Some(dv) }).as_union_value())
                        }
                        1 => {
                            let v: Vec<f32> = (0..*data_len).map(|i| fill as f32 * 0.5 + i as f32).collect();
                            let dv = b.create_vector(&v);
                            (sg::ConstantData::FloatData, sg::FloatData::create(b, &sg::FloatDataArgs { data: Some(dv) }).as_union_value())
                        }
                        2 => {
                            let v: Vec<i8> = (0..*data_len).map(|i| (fill as usize + i) as i8).collect();
                            let dv = b.create_vector(&v);
                            (sg::ConstantData::Int8Data, sg::Int8Data::create(b, &sg::Int8DataArgs { data: Some(dv) }).as_union_value())
                        }
                        _ => {
                            let v: Vec<u8> = (0..*data_len).map(|i| (fill as usize + i) as u8).collect();
                            let dv = b.create_vector(&v);
                            (sg::ConstantData::UInt8Data, sg::UInt8Data::create(b, &sg::UInt8DataArgs { data: Some(dv) }).as_union_value())
                        }
                    };
                    sg::ConstantNodeArgs { shape: Some(shape_vec), data_type: dt, data: Some(data), dtype: if *drop_dtype_field { None } else { Some(cdt) }, data_offset: *data_offset_override }
                };
                let c = sg::ConstantNode::create(b, &args);
                (name.clone(), sg::NodeKind::ConstantNode, c.as_union_value())
            }
            RNode::Op { name, op, inputs, outputs } => {
                let (ty, attrs_type, attrs) = match op {
                    ROp::Add => (sg::OperatorType::Add, sg::OperatorAttrs::NONE, None),
                    ROp::Mul => (sg::OperatorType::Mul, sg::OperatorAttrs::NONE, None),
                    ROp::Sub => (sg::OperatorType::Sub, sg::OperatorAttrs::NONE, None),
                    ROp::Relu => (sg::OperatorType::Relu, sg::OperatorAttrs::NONE, None),
                    ROp::MatMul => (sg::OperatorType::MatMul, sg::OperatorAttrs::NONE, None),
                    ROp::Identity => (sg::OperatorType::Identity, sg::OperatorAttrs::NONE, None),
                    ROp::If { then_branch, else_branch } => {
                        let t = write_graph(b, then_branch, td);
                        let e = write_graph(b, else_branch, td);
                        let a = sg::IfAttrs::create(b, &sg::IfAttrsArgs { then_branch: Some(t), else_branch: Some(e) });
                        (sg::OperatorType::If, sg::OperatorAttrs::IfAttrs, Some(a.as_union_value()))
                    }
                    ROp::Loop { body } => {
                        let g2 = write_graph(b, body, td);
                        let a = sg::LoopAttrs::create(b, &sg::LoopAttrsArgs { body: Some(g2) });
                        (sg::OperatorType::Loop, sg::OperatorAttrs::LoopAttrs, Some(a.as_union_value()))
                    }
                };
                let iv = b.create_vector(&inputs[..]);
                let ov = b.create_vector(&outputs[..]);
                let o = sg::OperatorNode::create(b, &sg::OperatorNodeArgs { type_: ty, attrs_type, attrs, inputs: Some(iv), outputs: Some(ov) });
                (name.clone(), sg::NodeKind::OperatorNode, o.as_union_value())
            }
        };
        let name_off = if name.is_empty() { None } else { Some(b.create_string(&name)) };
        nodes.push(sg::Node::create(b, &sg::NodeArgs { name: name_off, data_type: kind, data: Some(data) }));
    }
    let inputs = b.create_vector(&g.inputs[..]);
    let outputs = b.create_vector(&g.outputs[..]);
    let captures = g.captures.as_ref().map(|c| b.create_vector(&c[..]));
    let nodes = b.create_vector(&nodes[..]);
    sg::Graph::create(b, &sg::GraphArgs { nodes: Some(nodes), inputs: Some(inputs), outputs: Some(outputs), captures })
}

impl RModel {
    pub fn encode(&self) -> Vec<u8> {
        let mut b = FlatBufferBuilder::with_capacity(1024);
        let mut td = if self.v2 { Some(TensorData { data: Vec::new() }) } else { None };
        let g = write_graph(&mut b, &self.graph, &mut td);
        let m = sg::Model::create(&mut b, &sg::ModelArgs { schema_version: self.schema_version, graph: Some(g), metadata: None });
        b.finish(m, None);
        let model_data = b.finished_data().to_vec();
        match td {
            None => model_data,
            Some(td) => {
                let header = Header {
                    version: 2,
                    model_offset: self.model_offset_override.unwrap_or(Header::LEN as u64),
                    model_len: self.model_len_override.unwrap_or(model_data.len() as u64),
                    tensor_data_offset: self.tensor_data_offset_override.unwrap_or(Header::LEN as u64 + model_data.len() as u64),
                };
                let mut out = header.to_buf();
                out.extend(model_data);
                out.extend(td.data);
                out
            }
        }
    }
}

fn val(name: &str, shape: &[u32], dtype: u8) -> RNode {
    RNode::Value { name: name.into(), shape: Some(shape.iter().map(|d| RDim::Fixed(*d)).collect()), dtype: Some(dtype) }
}
fn cst(name: &str, shape: &[u32], dtype: u8) -> RNode {
    RNode::Const { name: name.into(), shape: shape.to_vec(), dtype, data_len: shape.iter().map(|d| *d as usize).product(), data_offset_override: None, drop_dtype_field: false }
}
fn op(name: &str, o: ROp, inputs: &[i32], outputs: &[i32]) -> RNode {
    RNode::Op { name: name.into(), op: o, inputs: inputs.to_vec(), outputs: outputs.to_vec() }
}

/// x[1,4] @ W[4,3] + b[3] -> relu
pub fn mlp(v2: bool) -> RModel {
    let g = RGraph {
        nodes: vec![
            val("x", &[1, 4], 1),
            cst("W", &[4, 3], 1),
            cst("b", &[3], 1),
            val("h", &[1, 3], 1),
            val("hb", &[1, 3], 1),
            val("y", &[1, 3], 1),
            op("mm", ROp::MatMul, &[0, 1], &[3]),
            op("add", ROp::Add, &[3, 2], &[4]),
            op("relu", ROp::Relu, &[4], &[5]),
        ],
        inputs: vec![0],
        outputs: vec![5],
        captures: None,
    };
    RModel { v2, schema_version: 1, graph: g, model_offset_override: None, model_len_override: None, tensor_data_offset_override: None }
}

/// Constants of all four element types.
pub fn dtypes(v2: bool) -> RModel {
    let g = RGraph {
        nodes: vec![
            val("x", &[2, 2], 0),
            cst("ki32", &[2, 2], 0),
            cst("ki8", &[5], 2),
            cst("ku8", &[2, 3], 3),
            cst("kf", &[], 1),
            val("a", &[2, 2], 0),
            val("y", &[2, 2], 0),
            op("add", ROp::Add, &[0, 1], &[5]),
            op("mul", ROp::Mul, &[5, 1], &[6]),
        ],
        inputs: vec![0],
        outputs: vec![6],
        captures: None,
    };
    RModel { v2, schema_version: 1, graph: g, model_offset_override: None, model_len_override: None, tensor_data_offset_override: None }
}

/// An `If` whose branches own constants and capture a parent value.
pub fn ctrl(v2: bool) -> RModel {
    let branch = |name: &str, o: ROp| RGraph {
        nodes: vec![
            RNode::Value { name: "x".into(), shape: None, dtype: None },
            cst(&format!("{name}_k"), &[3], 0),
            RNode::Value { name: format!("{name}_out"), shape: None, dtype: None },
            op(&format!("{name}_op"), o, &[0, 1], &[2]),
        ],
        inputs: vec![],
        outputs: vec![2],
        captures: Some(vec![0]),
    };
    let g = RGraph {
        nodes: vec![
            RNode::Value { name: "c".into(), shape: Some(vec![]), dtype: Some(0) },
            val("x", &[3], 0),
            RNode::Value { name: "y".into(), shape: None, dtype: None },
            op("if", ROp::If { then_branch: branch("t", ROp::Add), else_branch: branch("e", ROp::Mul) }, &[0], &[2]),
        ],
        inputs: vec![0, 1],
        outputs: vec![2],
        captures: None,
    };
    RModel { v2, schema_version: 1, graph: g, model_offset_override: None, model_len_override: None, tensor_data_offset_override: None }
}

pub fn corpus() -> Vec<(String, RModel)> {
    let mut out = Vec::new();
    for v2 in [false, true] {
        let tag = if v2 { "v2" } else { "v1" };
        out.push((format!("rten:mlp:{tag}"), mlp(v2)));
        out.push((format!("rten:dtypes:{tag}"), dtypes(v2)));
        out.push((format!("rten:ctrl:{tag}"), ctrl(v2)));
    }
    out
}
