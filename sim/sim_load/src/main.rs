//! sim_load — C05: loading untrusted model bytes is safe, bounded and well-formed.
//!
//! The "disk" is a byte string (or a file in a sandbox directory on tmpfs).
//! The simulator owns what is stored: every torn prefix, every single-byte
//! fault, every lying protobuf length, and structure-aware lies written by the
//! harness's own ONNX and `.rten` encoders (shapes that disagree with the
//! data, dimensions that multiply past the address space, header and data
//! offsets that point anywhere). The real loaders run on it.

mod rtenenc;

use onnxenc::{dtype, TensorData};
use rten::{ModelOptions, NodeId, ValueOrView};
use rtenenc::{RModel, RNode};
use serde::{Deserialize, Serialize};
use simcore::catch::{catch, panic_site};
use simcore::devices::{apply_faults, ByteFault};
use simcore::driver::{self, Ctx, Engine, EngineInfo, Outcome, Tier, Violation};
use simcore::rng::{fnv64, mix, Rng};
use std::path::PathBuf;

#[derive(Clone, Debug, Serialize, Deserialize, PartialEq)]
pub enum Base {
    Corpus(usize),
    Onnx(onnxenc::Model),
    Rten(RModel),
    Bytes(String),
}

#[derive(Clone, Debug, Serialize, Deserialize, PartialEq)]
pub enum DiskFault {
    None,
    /// The file on disk is shorter than what was written.
    Truncate(usize),
    ZeroLength,
    /// A directory sits where the file should be.
    DirInPlace,
    Missing,
}

#[derive(Clone, Debug, Serialize, Deserialize, PartialEq)]
pub enum Entry {
    Load,
    StaticSlice,
    /// `load_file` on a sandbox file with extension `onnx` / `rten`.
    File(DiskFault),
    /// `load_mmap` (unsafe API; the file is not modified while mapped).
    Mmap,
}

#[derive(Clone, Debug, Serialize, Deserialize)]
pub struct LoadCase {
    pub base: Base,
    pub faults: Vec<ByteFault>,
    pub entry: Entry,
    pub optimize: bool,
    pub prepack: bool,
    pub note: String,
}

struct CorpusFile {
    name: String,
    bytes: Vec<u8>,
    marks: Vec<onnxenc::Mark>,
    rten: bool,
}

#[derive(Clone, Copy)]
enum Section {
    Truncate(usize),
    Bytes(usize, usize),
    Marks(usize),
    Special,
    Seeded,
}

struct LoadEngine {
    corpus: Vec<CorpusFile>,
    specials: Vec<(String, Base)>,
    sections: Vec<(Section, u64, u64)>,
    total: u64,
    sandbox: PathBuf,
}

const N_EXTREMES: usize = 12;

fn extreme(k: usize, remaining: u64, orig: u64) -> u64 {
    match k {
        0 => 0,
        1 => orig.wrapping_add(1),
        2 => orig.wrapping_sub(1),
        3 => remaining + 1,
        4 => 1 << 31,
        5 => (1 << 32) - 1,
        6 => 1 << 40,
        7 => (1u64 << 63) - 1,
        8 => 1u64 << 63,
        9 => u64::MAX,
        10 => u64::MAX - 8,
        _ => 1u64 << 62,
    }
}

fn hex(b: &[u8]) -> String {
    let mut s = String::with_capacity(b.len() * 2);
    for x in b {
        s.push_str(&format!("{:02x}", x));
    }
    s
}
fn unhex(s: &str) -> Vec<u8> {
    (0..s.len() / 2).map(|i| u8::from_str_radix(&s[2 * i..2 * i + 2], 16).unwrap_or(0)).collect()
}

fn msg_class(m: &str) -> String {
    let mut out = String::new();
    for c in m.chars() {
        if out.len() >= 40 {
            break;
        }
        if c.is_ascii_alphabetic() {
            out.push(c.to_ascii_lowercase());
        } else if !out.ends_with('-') && !out.is_empty() {
            out.push('-');
        }
    }
    out.trim_end_matches('-').to_string()
}

/// Lying ONNX models: initializers whose dims disagree with their data.
fn onnx_lie(r: &mut Rng) -> (onnxenc::Model, String) {
    let all = onnxenc::corpus::all();
    let (name, mut m) = all[r.usize_below(all.len())].clone();
    let n_init = m.graph.initializers.len();
    let mut what = String::from("none");
    if n_init > 0 {
        let i = r.usize_below(n_init);
        let t = &mut m.graph.initializers[i];
        let k = r.below(16);
        what = format!("initializer {} lie {k}", t.name);
        match k {
            0 => t.dims = vec![-1],
            1 => t.dims = vec![1 << 31, 1 << 31, 4],
            2 => t.dims = vec![1 << 62, 4],
            3 => t.dims = vec![0, i64::MAX],
            4 => t.dims = vec![i64::MAX, 3, 0],
            5 => t.dims.push(2),
            6 => {
                t.dims.pop();
            }
            7 => t.dims = vec![i64::MAX],
            8 => t.dims = vec![1 << 32, 1 << 32],
            9 => {
                if let TensorData::Raw(b) = &mut t.data {
                    b.pop();
                }
            }
            10 => {
                if let TensorData::Raw(b) = &mut t.data {
                    b.extend([1, 2, 3]);
                }
            }
            11 => t.dtype = *r.pick(&[0, 4, 5, 8, 12, 13, 16, 99, -1]),
            12 => t.data = TensorData::None,
            13 => t.data = TensorData::External { location: "w.data".into(), offset: Some("0".into()), length: Some("18446744073709551615".into()), extra: vec![] },
            14 => {
                // element type changed under the same data
                t.dtype = *r.pick(&[dtype::FLOAT, dtype::INT32, dtype::INT64, dtype::DOUBLE, dtype::UINT8, dtype::BOOL, dtype::FLOAT16, dtype::INT8]);
            }
            _ => t.dims = vec![(1i64 << 61) + 1, 8],
        }
    }
    // graph-level lies
    match r.below(8) {
        0 => {
            if let Some(n) = m.graph.nodes.first_mut() {
                n.inputs.push("does_not_exist".into());
            }
        }
        1 => m.graph.outputs.push(onnxenc::ValueInfo::untyped("missing_output")),
        2 => {
            if let Some(n) = m.graph.nodes.last_mut() {
                n.op_type = "NoSuchOperator".into();
            }
        }
        3 => m.graph.inputs.push(onnxenc::ValueInfo::untyped("")),
        _ => {}
    }
    (m, format!("onnx-lie:{name}:{what}"))
}

fn rten_lie(r: &mut Rng) -> (RModel, String) {
    let all = rtenenc::corpus();
    let (name, mut m) = all[r.usize_below(all.len())].clone();
    let consts: Vec<usize> = m.graph.nodes.iter().enumerate().filter(|(_, n)| matches!(n, RNode::Const { .. })).map(|(i, _)| i).collect();
    let mut what = String::from("none");
    if !consts.is_empty() && r.chance(3, 4) {
        let i = *r.pick(&consts);
        if let RNode::Const { shape, data_len, data_offset_override, drop_dtype_field, dtype, .. } = &mut m.graph.nodes[i] {
            let k = r.below(14);
            what = format!("const {i} lie {k}");
            match k {
                0 => {
                    *shape = vec![1 << 31, 1 << 31, 4];
                    *data_len = 0;
                }
                1 => {
                    *shape = vec![65536, 65536, 65536, 65536];
                    *data_len = 0;
                }
                2 => *shape = vec![u32::MAX, u32::MAX],
                3 => {
                    // wraps to the real length on 64-bit: 2^32 * 2^32 * n
                    shape.insert(0, 1 << 16);
                    shape.insert(0, 1 << 16);
                    shape.insert(0, 1 << 16);
                    shape.insert(0, 1 << 16);
                }
                4 => *data_len += 1,
                5 => *data_len = data_len.saturating_sub(1),
                6 => shape.push(2),
                7 => *data_offset_override = Some(u64::MAX - r.below(64)),
                8 => *data_offset_override = Some(1 << 40),
                9 => *drop_dtype_field = true,
                10 => *dtype = (*dtype + 1) % 4,
                11 => {
                    *shape = vec![0, u32::MAX, u32::MAX, u32::MAX];
                    *data_len = 0;
                }
                12 => *data_offset_override = Some(3),
                _ => *shape = vec![1 << 30, 1 << 30, 1 << 2, 1 << 2],
            }
        }
    } else {
        let k = r.below(10);
        what = format!("structure lie {k}");
        match k {
            0 => m.tensor_data_offset_override = Some(u64::MAX),
            1 => m.tensor_data_offset_override = Some(33),
            2 => m.model_len_override = Some(u64::MAX - 16),
            3 => m.model_offset_override = Some(1 << 33),
            4 => m.schema_version = 2,
            5 => m.graph.inputs.push(9999),
            6 => m.graph.outputs = vec![u32::MAX],
            7 => m.graph.captures = Some(vec![12345]),
            8 => {
                for n in m.graph.nodes.iter_mut() {
                    if let RNode::Op { inputs, .. } = n {
                        inputs.push(i32::MAX);
                        break;
                    }
                }
            }
            _ => {
                for n in m.graph.nodes.iter_mut() {
                    if let RNode::Op { outputs, .. } = n {
                        *outputs = vec![-5, 70000];
                        break;
                    }
                }
            }
        }
    }
    (m, format!("rten-lie:{name}:{what}"))
}

impl LoadEngine {
    fn base_bytes(&self, base: &Base) -> (Vec<u8>, bool) {
        match base {
            Base::Corpus(i) => {
                let f = &self.corpus[*i % self.corpus.len()];
                (f.bytes.clone(), f.rten)
            }
            Base::Onnx(m) => (m.encode(), false),
            Base::Rten(m) => (m.encode(), true),
            Base::Bytes(h) => {
                let b = unhex(h);
                let rten = b.starts_with(b"RTEN");
                (b, rten)
            }
        }
    }
}

impl Engine for LoadEngine {
    type Case = LoadCase;

    fn name() -> &'static str {
        "sim_load"
    }
    fn engine_id() -> u64 {
        5
    }
    fn properties() -> Vec<&'static str> {
        vec!["C05"]
    }

    fn new(_p: &str, tier: Tier, _seed: u64) -> Self {
        let mut corpus = Vec::new();
        for (name, m) in onnxenc::corpus::all() {
            let pb = m.encode_pb();
            corpus.push(CorpusFile { name: format!("onnx:{name}"), bytes: pb.buf, marks: pb.marks, rten: false });
        }
        for (name, m) in rtenenc::corpus() {
            corpus.push(CorpusFile { name, bytes: m.encode(), marks: vec![], rten: true });
        }
        for f in ["model-load-file-test.rten"] {
            if let Ok(b) = std::fs::read(format!("/repo/{f}")) {
                corpus.push(CorpusFile { name: format!("repo:{f}"), bytes: b, marks: vec![], rten: true });
            }
        }
        let mut specials: Vec<(String, Base)> = vec![
            ("empty".into(), Base::Bytes(String::new())),
            ("magic only".into(), Base::Bytes(hex(b"RTEN"))),
            ("header only".into(), Base::Bytes(hex(&[b"RTEN".as_slice(), &2u32.to_le_bytes(), &32u64.to_le_bytes(), &0u64.to_le_bytes(), &32u64.to_le_bytes()].concat()))),
            ("header model_len max".into(), Base::Bytes(hex(&[b"RTEN".as_slice(), &2u32.to_le_bytes(), &32u64.to_le_bytes(), &u64::MAX.to_le_bytes(), &32u64.to_le_bytes()].concat()))),
            ("v1 root offset past end".into(), Base::Bytes(hex(&[0xf0, 0xff, 0xff, 0x7f, 0, 0, 0, 0]))),
            ("v1 root offset 4".into(), Base::Bytes(hex(&[4, 0, 0, 0, 0, 0, 0, 0, 0, 0, 0, 0]))),
            ("onnx nested graphs 100k".into(), Base::Bytes(hex(&onnxenc::nested_graph_model(100_000)))),
            ("onnx nested graphs 30".into(), Base::Bytes(hex(&onnxenc::nested_graph_model(30)))),
            // two int32 constants whose product overflows, multiplied by load-time constant propagation
            ("onnx const-prop i32 mul overflow".into(), {
                let g = onnxenc::Graph {
                    name: "g".into(),
                    nodes: vec![onnxenc::Node::new("Mul", &["k1", "k2"], &["p"]), onnxenc::Node::new("Add", &["x", "p"], &["y"])],
                    initializers: vec![onnxenc::Tensor::i32("k1", &[1], &[65536]), onnxenc::Tensor::i32("k2", &[1], &[65536])],
                    inputs: vec![onnxenc::ValueInfo::new("x", dtype::INT32, &[1])],
                    outputs: vec![onnxenc::ValueInfo::new("y", dtype::INT32, &[1])],
                    value_info: vec![],
                };
                Base::Onnx(onnxenc::Model::new(g))
            }),
        ];
        // External tensor data with lying ranges. For the file entry points a 64-byte sibling `w.data`
        // exists in the sandbox, so the range is what decides (declared lengths far beyond the file must be
        // load errors, not allocations).
        for (off, len) in [(0u64, 16u64), (60, 8), (0, 1 << 47), (0, 1 << 62), (16, i64::MAX as u64), (1 << 63, 8), (u64::MAX, 8), (u64::MAX - 7, 16)] {
            let g = onnxenc::Graph {
                name: "g".into(),
                nodes: vec![onnxenc::Node::new("Add", &["x", "w"], &["y"])],
                initializers: vec![onnxenc::Tensor {
                    name: "w".into(),
                    dims: vec![4],
                    dtype: dtype::FLOAT,
                    data: TensorData::External { location: "w.data".into(), offset: Some(off.to_string()), length: Some(len.to_string()), extra: vec![] },
                }],
                inputs: vec![onnxenc::ValueInfo::new("x", dtype::FLOAT, &[4])],
                outputs: vec![onnxenc::ValueInfo::new("y", dtype::FLOAT, &[4])],
                value_info: vec![],
            };
            specials.push((format!("onnx external data offset {off} length {len}"), Base::Onnx(onnxenc::Model::new(g))));
        }
        // An over-long varint (12 continuation bytes) that starts 0..10 bytes before the 8 KiB mark, where
        // the buffered file reader refills: a producer_name field pads the file up to that point.
        for d in 0..=10usize {
            let start = 8192 - d;
            let mut l = start - 3;
            while 1 + onnxenc::varint(l as u64).len() + l != start {
                l += 1;
                if l > start {
                    break;
                }
            }
            let mut b = vec![0x12u8];
            b.extend(onnxenc::varint(l as u64));
            b.extend(std::iter::repeat(b'a').take(l));
            b.extend([0xffu8; 12]);
            b.extend([0x01, 0x08, 0x08]);
            specials.push((format!("onnx over-long varint at file offset {}", b.len() - 15), Base::Bytes(hex(&b))));
        }
        let mut sections = Vec::new();
        let mut at = 0u64;
        let mut push = |s: Section, n: u64, at: &mut u64| {
            if n > 0 {
                sections.push((s, *at, n));
                *at += n;
            }
        };
        push(Section::Special, specials.len() as u64 * 2, &mut at);
        for (i, f) in corpus.iter().enumerate() {
            let l = f.bytes.len();
            let big = l > 4000;
            push(Section::Truncate(i), if big { 1024 } else { l as u64 + 1 }, &mut at);
            let stride = if big { 23 } else { 1 };
            push(Section::Bytes(i, stride), (l.div_ceil(stride) * 4) as u64, &mut at);
            push(Section::Marks(i), (f.marks.len() * N_EXTREMES) as u64, &mut at);
        }
        let seeded = match tier {
            Tier::Quick => 600_000,
            Tier::Thorough => 60_000_000,
        };
        push(Section::Seeded, seeded, &mut at);
        let sandbox = if std::path::Path::new("/dev/shm").is_dir() { PathBuf::from("/dev/shm/verif-sim/load") } else { std::env::temp_dir().join("verif-sim-load") };
        LoadEngine { corpus, specials, sections, total: at, sandbox }
    }

    fn info(&self) -> EngineInfo {
        EngineInfo {
            level: "fault_enumeration",
            rule: format!(
                "Corpus of {} valid models (8 ONNX files covering every field kind; .rten V1 and V2 files written by the harness with inline and offset constants of all four element types and If subgraphs; a .rten file from the repository). Enumerated per file: every truncation offset, every byte x {{flip bit0, 00, FF, 80}}, every protobuf tag/length/varint x 12 extreme values; hand-built fragments. Seeded: multi-fault byte mixes and structure-aware lies emitted by the harness's encoders (ONNX initializer dims negative / huge / zero x huge / wrapping, raw_data one byte short or long, element type changed under the data, missing data, external data without a loader, dangling graph references; .rten constant shapes whose u32 dims multiply to 2^64, inline data longer/shorter than the shape, data offsets near 2^64, header offsets and lengths out of range, node indices out of range), delivered through load, load_static_slice, load_file (incl. truncated / empty / directory-in-place files in a sandbox on tmpfs) and load_mmap, with optimisation and prepacking on and off. After a successful load every constant of every (sub)graph is checked (hook: shape product == storage length, fits isize) and the model is run on zero inputs with every named constant requested as output. Non-trivial = the stored bytes differ from a valid file or a lie was encoded; distinct = hash of the explicit case.",
                self.corpus.len()
            ),
            real_components: vec!["rten::ModelOptions::{load, load_static_slice, load_file, load_mmap}".into(), "file type sniffing, ONNX loader, .rten loader, rten-model-file header, flatbuffers verifier, rten-onnx decoder, graph optimizer, constant propagation, prepacking".into(), "Model::run on the loaded model".into()],
            stub_components: vec!["none (the disk is a byte buffer or a sandbox directory on tmpfs)".into()],
            assumptions: vec![
                "a panic or error while *running* a corrupted-but-loadable model is counted, not judged; only panics during load, the constant invariant, aborts (segfault, stack overflow, allocation abort) and hangs are verdicts".into(),
                "hook (--cfg rten_verif): Model::verif_constants() exposes shape / element size / storage length of every constant".into(),
            ],
            technique: "deterministic simulation with fault injection (simulated storage under the real model loaders: enumerated torn prefixes, byte faults and length lies; seeded structure-aware lies; in-run constant invariant)".into(),
            hang_secs: 30,
            expected_probes: vec![
                "fault:truncate".into(), "fault:byte".into(), "fault:len_lie".into(), "fault:onnx_spec_lie".into(), "fault:rten_spec_lie".into(), "fault:disk".into(),
                "probe:load_ok".into(), "probe:load_err".into(), "probe:constants_checked".into(), "probe:ran_model".into(), "probe:entry_file".into(), "probe:entry_static".into(), "probe:entry_mmap".into(), "probe:subgraph_constants".into(),
            ],
        }
    }

    fn num_cases(&self) -> u64 {
        self.total
    }

    fn make_case(&self, index: u64, seed: u64) -> LoadCase {
        let (sec, first, _n) = *self.sections.iter().rev().find(|(_, first, _)| *first <= index).expect("section");
        let k = (index - first) as usize;
        let entry_rot = |k: usize| match k % 11 {
            3 => Entry::StaticSlice,
            5 => Entry::File(DiskFault::None),
            8 => Entry::Mmap,
            _ => Entry::Load,
        };
        match sec {
            Section::Special => {
                let (name, base) = &self.specials[k / 2];
                LoadCase { base: base.clone(), faults: vec![], entry: if k % 2 == 0 { Entry::Load } else { Entry::File(DiskFault::None) }, optimize: true, prepack: false, note: format!("special:{name}") }
            }
            Section::Truncate(i) => {
                let f = &self.corpus[i];
                let l = f.bytes.len();
                let off = if l > 4000 { k * l / 1024 } else { k };
                if k % 7 == 6 {
                    // the same tear applied by the disk: a file shorter than what was written
                    return LoadCase { base: Base::Corpus(i), faults: vec![], entry: Entry::File(DiskFault::Truncate(off)), optimize: true, prepack: false, note: format!("disk-truncate:{}@{off}", f.name) };
                }
                LoadCase { base: Base::Corpus(i), faults: vec![ByteFault::Truncate(off)], entry: entry_rot(k), optimize: k % 2 == 0, prepack: k % 5 == 0, note: format!("truncate:{}@{off}", f.name) }
            }
            Section::Bytes(i, stride) => {
                let f = &self.corpus[i];
                let pos = (k / 4) * stride;
                let fault = match k % 4 {
                    0 => ByteFault::FlipBit { pos, bit: 0 },
                    1 => ByteFault::SetByte { pos, val: 0 },
                    2 => ByteFault::SetByte { pos, val: 0xff },
                    _ => ByteFault::SetByte { pos, val: 0x80 },
                };
                LoadCase { base: Base::Corpus(i), faults: vec![fault], entry: entry_rot(k / 4), optimize: (k / 4) % 3 != 0, prepack: (k / 4) % 5 == 0, note: format!("byte:{}@{pos}", f.name) }
            }
            Section::Marks(i) => {
                let f = &self.corpus[i];
                let m = &f.marks[k / N_EXTREMES];
                let remaining = (f.bytes.len() - m.pos - m.len) as u64;
                let v = extreme(k % N_EXTREMES, remaining, m.value);
                LoadCase { base: Base::Corpus(i), faults: vec![ByteFault::Replace { pos: m.pos, len: m.len, bytes: onnxenc::varint(v) }], entry: entry_rot(k), optimize: true, prepack: false, note: format!("lie:{}:{:?}@{}={v:#x}", f.name, m.kind, m.pos) }
            }
            Section::Seeded => {
                let mut r = Rng::new(seed);
                let entry = match r.below(16) {
                    0 => Entry::StaticSlice,
                    1 | 2 => Entry::File(match r.below(8) {
                        0 => DiskFault::ZeroLength,
                        1 => DiskFault::DirInPlace,
                        2 => DiskFault::Missing,
                        3 => DiskFault::Truncate(r.usize_below(2000)),
                        _ => DiskFault::None,
                    }),
                    3 => Entry::Mmap,
                    _ => Entry::Load,
                };
                let optimize = r.chance(3, 4);
                let prepack = r.chance(1, 4);
                match r.below(10) {
                    0..=2 => {
                        let (m, note) = onnx_lie(&mut r);
                        LoadCase { base: Base::Onnx(m), faults: vec![], entry, optimize, prepack, note }
                    }
                    3..=5 => {
                        let (m, note) = rten_lie(&mut r);
                        LoadCase { base: Base::Rten(m), faults: vec![], entry, optimize, prepack, note }
                    }
                    _ => {
                        let file = r.usize_below(self.corpus.len());
                        let f = &self.corpus[file];
                        let len = f.bytes.len();
                        let nf = r.urange(1, 3);
                        let mut faults = Vec::new();
                        for _ in 0..nf {
                            let pos = r.usize_below(len.max(1));
                            faults.push(match r.below(8) {
                                0 => ByteFault::Truncate(pos),
                                1 => ByteFault::FlipBit { pos, bit: r.below(8) as u8 },
                                2 => ByteFault::SetByte { pos, val: *r.pick(&[0u8, 0xff, 0x7f, 0x80, 1, 4]) },
                                3 => ByteFault::ZeroRange { start: pos & !63, len: 64 },
                                4 => ByteFault::DupBlock { start: pos, len: r.urange(1, 64), at: r.usize_below(len.max(1)) },
                                5 if !f.marks.is_empty() => {
                                    let m = r.pick(&f.marks);
                                    let remaining = (len - m.pos - m.len) as u64;
                                    ByteFault::Replace { pos: m.pos, len: m.len, bytes: onnxenc::varint(extreme(r.usize_below(N_EXTREMES), remaining, m.value)) }
                                }
                                6 => {
                                    // a 4-byte little-endian word (flatbuffers offsets/lengths) replaced
                                    let p4 = pos & !3;
                                    ByteFault::Replace { pos: p4, len: 4, bytes: r.pick(&[0u32, 4, 0xffff_ffff, 0x7fff_ffff, 0x8000_0000, len as u32, len as u32 + 4]).to_le_bytes().to_vec() }
                                }
                                _ => ByteFault::Insert { pos, bytes: (0..r.urange(1, 8)).map(|_| r.below(256) as u8).collect() },
                            });
                        }
                        LoadCase { base: Base::Corpus(file), faults, entry, optimize, prepack, note: format!("mix:{}", f.name) }
                    }
                }
            }
        }
    }

    fn run_case(&self, case: &LoadCase, ctx: &mut Ctx) -> Outcome {
        let (base, rten_fmt) = self.base_bytes(&case.base);
        let bytes = apply_faults(&base, &case.faults);
        let fmt = if rten_fmt { "rten" } else { "onnx" };
        let mut nontrivial = false;
        for f in &case.faults {
            match f {
                ByteFault::Truncate(_) => ctx.count("fault:truncate"),
                ByteFault::Replace { .. } => ctx.count("fault:len_lie"),
                ByteFault::FlipBit { .. } | ByteFault::SetByte { .. } => ctx.count("fault:byte"),
                _ => ctx.count("fault:block"),
            }
            nontrivial = true;
        }
        match &case.base {
            Base::Onnx(_) => {
                ctx.count("fault:onnx_spec_lie");
                nontrivial = true;
            }
            Base::Rten(_) => {
                ctx.count("fault:rten_spec_lie");
                nontrivial = true;
            }
            Base::Bytes(_) => nontrivial = true,
            Base::Corpus(_) => {}
        }
        let mut opts = ModelOptions::with_all_ops();
        opts.enable_optimization(case.optimize);
        opts.prepack_weights(case.prepack);

        let entry_name = match &case.entry {
            Entry::Load => "load",
            Entry::StaticSlice => "load_static_slice",
            Entry::File(_) => "load_file",
            Entry::Mmap => "load_mmap",
        };
        let loaded = match &case.entry {
            Entry::Load => catch(|| opts.load(bytes.clone())),
            Entry::StaticSlice => {
                ctx.count("probe:entry_static");
                // the API demands 'static data: leak this (small) buffer
                if bytes.len() > 1 << 16 {
                    catch(|| opts.load(bytes.clone()))
                } else {
                    let leaked: &'static [u8] = Box::leak(bytes.clone().into_boxed_slice());
                    catch(|| opts.load_static_slice(leaked))
                }
            }
            Entry::File(_) | Entry::Mmap => {
                let dir = self.sandbox.join(format!("p{}", std::process::id()));
                let _ = std::fs::create_dir_all(&dir);
                let path = dir.join(format!("model.{fmt}"));
                // sibling data file for external tensors
                let _ = std::fs::write(dir.join("w.data"), (0u8..64).collect::<Vec<u8>>());
                let _ = std::fs::remove_dir_all(&path);
                let _ = std::fs::remove_file(&path);
                let disk = match &case.entry {
                    Entry::File(d) => d.clone(),
                    _ => DiskFault::None,
                };
                match &disk {
                    DiskFault::None => {
                        let _ = std::fs::write(&path, &bytes);
                    }
                    DiskFault::Truncate(n) => {
                        ctx.count("fault:disk");
                        nontrivial = true;
                        let _ = std::fs::write(&path, &bytes[..(*n).min(bytes.len())]);
                    }
                    DiskFault::ZeroLength => {
                        ctx.count("fault:disk");
                        nontrivial = true;
                        let _ = std::fs::write(&path, b"");
                    }
                    DiskFault::DirInPlace => {
                        ctx.count("fault:disk");
                        nontrivial = true;
                        let _ = std::fs::create_dir_all(&path);
                    }
                    DiskFault::Missing => {
                        ctx.count("fault:disk");
                        nontrivial = true;
                    }
                }
                let r = if matches!(case.entry, Entry::Mmap) {
                    ctx.count("probe:entry_mmap");
                    // mmap of an empty file fails with an error, which is fine
                    catch(|| unsafe { opts.load_mmap(&path) })
                } else {
                    ctx.count("probe:entry_file");
                    catch(|| opts.load_file(&path))
                };
                // (the model may hold the mapping; the file itself can go)
                let _ = std::fs::remove_dir_all(&path);
                let _ = std::fs::remove_file(&path);
                r
            }
        };
        let mut trace = vec![fnv64(&bytes)];
        let model = match loaded {
            Err(p) => {
                // One finding class for operator kernels that overflow on integer
                // arithmetic while load-time constant propagation evaluates them on
                // values from the file (any kernel, any of add/sub/mul/neg).
                let site = panic_site(&p);
                let class = msg_class(&p.message);
                let key = if site.starts_with("src/ops/") && class.starts_with("attempt-to-") && class.ends_with("with-overflow") {
                    "C05/panic/operator-integer-overflow-in-constant-propagation".to_string()
                } else {
                    format!("C05/panic/{fmt}/{site}:{class}")
                };
                return Outcome {
                    violation: Some(Violation::new(
                        key,
                        format!("{entry_name} of a {}-byte {fmt} file panicked: {} at {} [{}]", bytes.len(), p.message, p.location, case.note),
                    )),
                    nontrivial: true,
                    steps: 1,
                    trace_hash: mix(&trace),
                    executions: 1,
                    ..Default::default()
                };
            }
            Ok(Err(e)) => {
                ctx.count("probe:load_err");
                // (messages of file errors contain the sandbox path: keep them out of the event log)
                let _ = e;
                trace.push(0xE);
                return Outcome { violation: None, nontrivial, steps: 1, trace_hash: mix(&trace), executions: 1, ..Default::default() };
            }
            Ok(Ok(m)) => m,
        };
        ctx.count("probe:load_ok");

        // In-run invariant (hook H6): every constant matches its backing data.
        #[cfg(rten_verif)]
        {
            let consts = model.verif_constants();
            ctx.add("probe:constants_checked", consts.len() as u64);
            for c in &consts {
                if c.depth > 0 {
                    ctx.count("probe:subgraph_constants");
                }
                let n = c.shape.iter().try_fold(1usize, |a, d| a.checked_mul(*d));
                let ok = match n {
                    Some(n) => n == c.storage_len && n.checked_mul(c.elem_size.max(1)).map(|b| b <= isize::MAX as usize).unwrap_or(false),
                    None => false,
                };
                if !ok {
                    return Outcome {
                        violation: Some(Violation::new(
                            format!("C05/constant-mismatch/{fmt}"),
                            format!(
                                "loaded model has constant {:?} (graph depth {}) with shape {:?} but its storage holds {} elements of {} bytes: running the model can read outside that data [{}]",
                                c.name, c.depth, c.shape, c.storage_len, c.elem_size, case.note
                            ),
                        )),
                        nontrivial: true,
                        steps: 2,
                        trace_hash: mix(&trace),
                        executions: 1,
                        ..Default::default()
                    };
                }
            }
            trace.push(consts.len() as u64);
        }

        // Read every named constant of the main graph through the public API
        // (requested as a run output, which copies - i.e. fully reads - its backing
        // data). Operators are deliberately not run: a corrupted-but-loadable
        // graph may be cyclic or loop forever, which is outside this property.
        #[cfg(rten_verif)]
        {
            let mut outputs: Vec<NodeId> = Vec::new();
            for c in model.verif_constants() {
                if c.depth == 0 {
                    if let Some(id) = c.name.as_deref().and_then(|n| model.find_node(n)) {
                        if !outputs.contains(&id) {
                            outputs.push(id);
                        }
                    }
                }
            }
            if !outputs.is_empty() {
                ctx.count("probe:ran_model");
                let inputs: Vec<(NodeId, ValueOrView)> = Vec::new();
                match catch(|| model.run(inputs, &outputs, None)) {
                    Ok(Ok(_)) => ctx.count("probe:run_ok"),
                    Ok(Err(_)) => ctx.count("probe:run_err"),
                    Err(_) => ctx.count("probe:run_panicked"),
                }
            }
        }
        Outcome { violation: None, nontrivial, steps: 3, trace_hash: mix(&trace), executions: 1, ..Default::default() }
    }

    fn shrink(&self, case: &LoadCase) -> Vec<LoadCase> {
        let mut out = Vec::new();
        if case.entry != Entry::Load {
            out.push(LoadCase { entry: Entry::Load, ..case.clone() });
        }
        if case.prepack {
            out.push(LoadCase { prepack: false, ..case.clone() });
        }
        if case.optimize {
            out.push(LoadCase { optimize: false, ..case.clone() });
        }
        for i in 0..case.faults.len() {
            let mut c = case.clone();
            c.faults.remove(i);
            out.push(c);
        }
        match &case.base {
            Base::Rten(m) => {
                // drop nodes from the end while references stay valid is hard; drop lies instead
                for k in 0..3 {
                    let mut c = m.clone();
                    match k {
                        0 => c.tensor_data_offset_override = None,
                        1 => c.model_len_override = None,
                        _ => c.model_offset_override = None,
                    }
                    if c != *m {
                        out.push(LoadCase { base: Base::Rten(c), ..case.clone() });
                    }
                }
                if m.v2 {
                    let mut c = m.clone();
                    c.v2 = false;
                    out.push(LoadCase { base: Base::Rten(c), ..case.clone() });
                }
            }
            Base::Onnx(m) => {
                for i in 0..m.graph.nodes.len() {
                    let mut c = m.clone();
                    c.graph.nodes.remove(i);
                    out.push(LoadCase { base: Base::Onnx(c), ..case.clone() });
                }
                for i in 0..m.graph.initializers.len() {
                    let mut c = m.clone();
                    c.graph.initializers.remove(i);
                    out.push(LoadCase { base: Base::Onnx(c), ..case.clone() });
                }
                if !m.metadata.is_empty() || m.unknown_fields || !m.extra_opsets.is_empty() {
                    let mut c = m.clone();
                    c.metadata.clear();
                    c.unknown_fields = false;
                    c.extra_opsets.clear();
                    out.push(LoadCase { base: Base::Onnx(c), ..case.clone() });
                }
            }
            Base::Corpus(_) => {
                let (base, _) = self.base_bytes(&case.base);
                let bytes = apply_faults(&base, &case.faults);
                out.push(LoadCase { base: Base::Bytes(hex(&bytes)), faults: vec![], note: format!("{} (materialised)", case.note), ..case.clone() });
            }
            Base::Bytes(h) => {
                let bytes = unhex(h);
                let n = bytes.len();
                let mut chunk = n / 2;
                while chunk >= 1 {
                    let mut start = 0;
                    while start < n {
                        let end = (start + chunk).min(n);
                        let mut b = bytes[..start].to_vec();
                        b.extend_from_slice(&bytes[end..]);
                        out.push(LoadCase { base: Base::Bytes(hex(&b)), ..case.clone() });
                        start += chunk;
                        // the minimiser asks again after every accepted reduction: a bounded list of the
                        // coarsest candidates is enough (a 1 MB input would otherwise yield millions of copies)
                        if n > 4096 && out.len() >= 96 {
                            return out;
                        }
                    }
                    if chunk == 1 {
                        break;
                    }
                    chunk /= 2;
                }
            }
        }
        out
    }

    fn sample(&self, case: &LoadCase) -> serde_json::Value {
        let (base, _) = self.base_bytes(&case.base);
        let bytes = apply_faults(&base, &case.faults);
        serde_json::json!({
            "note": case.note,
            "entry": case.entry,
            "optimize": case.optimize,
            "prepack": case.prepack,
            "faults": case.faults,
            "stored_len": bytes.len(),
            "stored_head_hex": hex(&bytes[..bytes.len().min(48)]),
        })
    }
}

fn main() {
    driver::main::<LoadEngine>();
}
