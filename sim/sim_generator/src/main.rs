//! sim_generator — C32: the generator feeds the model a consistent token history.
//!
//! The "system" is `rten_generate::Generator` (real code); the model is a mock
//! that implements the crate's own `Model` trait, records exactly what it is
//! given on every call and can be told to fail (rule c). Histories of
//! prompt/append/next/process/clear calls (rule b) are checked call by call
//! against a small reference state machine.

use rten::{Dimension, NodeId, RunOptions, Value, ValueOrView, ValueView};
use rten_generate::filter::LogitsFilter;
use rten_generate::model::{Model, NodeInfo};
use rten_generate::{Generator, GeneratorConfig, Logits, ModelInputsConfig};
use rten_tensor::prelude::*;
use rten_tensor::Tensor;
use serde::{Deserialize, Serialize};
use simcore::catch::catch;
use simcore::driver::{self, Ctx, Engine, EngineInfo, Outcome, Tier, Violation};
use simcore::rng::{fnv64, mix, Rng};
use std::cell::RefCell;
use std::error::Error;

#[derive(Clone, Debug, Serialize, Deserialize, PartialEq)]
pub struct MockCfg {
    /// 0 = no KV cache, 3 = (batch, seq, chans), 4 = (batch, heads, seq, chans)
    pub kv_rank: u8,
    pub layers: usize,
    pub encoder_cache: bool,
    pub attention_mask: bool,
    pub position_ids: bool,
    pub cache_position: bool,
    pub use_cache_branch: bool,
    pub vocab: usize,
    pub kv_capacity: Option<usize>,
    pub filter: bool,
    /// Accept a run with zero input tokens when no logits are requested (the caches come back
    /// unchanged, i.e. still empty on a first run) instead of rejecting it.
    #[serde(default)]
    pub accept_empty: bool,
}

#[derive(Clone, Debug, Serialize, Deserialize, PartialEq)]
pub enum Fault {
    /// `run` returns an error before looking at its inputs.
    FailBefore,
    /// The returned self-attention caches have rank 2.
    WrongRankCache,
    /// The logits tensor has a zero-length sequence dimension.
    EmptyLogits,
    /// One output fewer than requested.
    OmitOutput,
}

#[derive(Clone, Debug, Serialize, Deserialize, PartialEq)]
pub enum Op {
    Append(Vec<u32>),
    Next,
    ProcessPrompt,
    Clear,
    /// `generator = generator.with_prompt(tokens)` in the middle of a history: replaces whatever is pending.
    SetPrompt(Vec<u32>),
}

#[derive(Clone, Debug, Serialize, Deserialize)]
pub struct GenCase {
    pub cfg: MockCfg,
    pub with_prompt: Option<Vec<u32>>,
    pub history: Vec<Op>,
    /// (model call ordinal, fault)
    pub faults: Vec<(usize, Fault)>,
    pub note: String,
}

// ------------------------------------------------------------------ mock model

#[derive(Clone, Debug, Default)]
struct CallRecord {
    tokens: Vec<i32>,
    position_ids: Option<Vec<i32>>,
    cache_position: Option<Vec<i32>>,
    attention_mask: Option<(Vec<usize>, bool)>,
    use_cache: Option<i32>,
    /// per layer: (shape, data) of the cache passed in; None = not passed
    kv_in: Vec<Option<(Vec<usize>, Vec<f32>)>>,
    enc_in: Vec<Option<(Vec<usize>, Vec<f32>)>>,
    kv_out: Vec<(Vec<usize>, Vec<f32>)>,
    enc_out: Vec<(Vec<usize>, Vec<f32>)>,
    wants_logits: bool,
    failed: bool,
    /// The generator did not supply this declared input.
    missing_input: Option<String>,
    fault: Option<Fault>,
    owned_kv: bool,
}

struct Mock {
    cfg: MockCfg,
    nodes: Vec<NodeInfo>,
    inputs: Vec<NodeId>,
    calls: RefCell<Vec<CallRecord>>,
    faults: Vec<(usize, Fault)>,
}

const HEADS: usize = 2;
const CHANS: usize = 3;

impl Mock {
    fn new(cfg: &MockCfg, faults: &[(usize, Fault)]) -> Mock {
        let mut nodes: Vec<NodeInfo> = Vec::new();
        let mut inputs = Vec::new();
        let sym = |s: &str| Dimension::Symbolic(s.to_string());
        let mut add_input = |nodes: &mut Vec<NodeInfo>, name: &str, shape: &[Dimension]| {
            inputs.push(NodeId::from_u32(nodes.len() as u32));
            nodes.push(NodeInfo::from_name_shape(name, shape));
        };
        add_input(&mut nodes, "input_ids", &[sym("batch"), sym("seq")]);
        if cfg.attention_mask {
            add_input(&mut nodes, "attention_mask", &[sym("batch"), sym("total")]);
        }
        if cfg.position_ids {
            add_input(&mut nodes, "position_ids", &[sym("batch"), sym("seq")]);
        }
        if cfg.cache_position {
            add_input(&mut nodes, "cache_position", &[sym("seq")]);
        }
        if cfg.use_cache_branch {
            add_input(&mut nodes, "use_cache_branch", &[]);
        }
        let kv_shape: Vec<Dimension> = match cfg.kv_rank {
            3 => vec![sym("batch"), sym("past"), Dimension::Fixed(CHANS)],
            _ => vec![sym("batch"), Dimension::Fixed(HEADS), sym("past"), Dimension::Fixed(CHANS)],
        };
        if cfg.kv_rank != 0 {
            for l in 0..cfg.layers {
                if cfg.encoder_cache {
                    add_input(&mut nodes, &format!("past_key_values.{l}.decoder.key"), &kv_shape);
                    add_input(&mut nodes, &format!("past_key_values.{l}.encoder.key"), &kv_shape);
                } else {
                    add_input(&mut nodes, &format!("past_key_values.{l}.key"), &kv_shape);
                    add_input(&mut nodes, &format!("past_key_values.{l}.value"), &kv_shape);
                }
            }
        }
        nodes.push(NodeInfo::from_name_shape("logits", &[sym("batch"), sym("seq"), Dimension::Fixed(cfg.vocab)]));
        if cfg.kv_rank != 0 {
            for l in 0..cfg.layers {
                if cfg.encoder_cache {
                    nodes.push(NodeInfo::from_name_shape(&format!("present.{l}.decoder.key"), &kv_shape));
                    nodes.push(NodeInfo::from_name_shape(&format!("present.{l}.encoder.key"), &kv_shape));
                } else {
                    nodes.push(NodeInfo::from_name_shape(&format!("present.{l}.key"), &kv_shape));
                    nodes.push(NodeInfo::from_name_shape(&format!("present.{l}.value"), &kv_shape));
                }
            }
        }
        Mock { cfg: cfg.clone(), nodes, inputs, calls: RefCell::new(Vec::new()), faults: faults.to_vec() }
    }

    fn name_of(&self, id: NodeId) -> &str {
        self.nodes[id.as_u32() as usize].name()
    }
}

/// The token the (fault-free) mock makes the arg-max of its `n`-th logits.
fn mock_token(call: usize, vocab: usize) -> u32 {
    ((call * 7 + 3) % vocab) as u32
}

fn f32s(v: &ValueView) -> Option<(Vec<usize>, Vec<f32>)> {
    match v {
        ValueView::FloatTensor(t) => Some((t.shape().to_vec(), t.iter().copied().collect())),
        _ => None,
    }
}
fn i32s(v: &ValueView) -> Option<(Vec<usize>, Vec<i32>)> {
    match v {
        ValueView::Int32Tensor(t) => Some((t.shape().to_vec(), t.iter().copied().collect())),
        _ => None,
    }
}

impl Model for Mock {
    fn find_node(&self, name: &str) -> Option<NodeId> {
        self.nodes.iter().position(|n| n.name() == name).map(|p| NodeId::from_u32(p as u32))
    }
    fn node_info(&self, id: NodeId) -> Option<NodeInfo> {
        self.nodes.get(id.as_u32() as usize).cloned()
    }
    fn input_ids(&self) -> &[NodeId] {
        &self.inputs
    }

    fn run(&self, inputs: Vec<(NodeId, ValueOrView)>, outputs: &[NodeId], _opts: Option<RunOptions>) -> Result<Vec<Value>, Box<dyn Error>> {
        let call_no = self.calls.borrow().len();
        let fault = self.faults.iter().find(|(c, _)| *c == call_no).map(|(_, f)| f.clone());
        let mut rec = CallRecord { fault: fault.clone(), ..Default::default() };
        if fault == Some(Fault::FailBefore) {
            rec.failed = true;
            self.calls.borrow_mut().push(rec);
            return Err("mock: injected model failure".into());
        }
        let kv_slots = if self.cfg.kv_rank != 0 { self.cfg.layers * if self.cfg.encoder_cache { 1 } else { 2 } } else { 0 };
        let enc_slots = if self.cfg.kv_rank != 0 && self.cfg.encoder_cache { self.cfg.layers } else { 0 };
        rec.kv_in = vec![None; kv_slots];
        rec.enc_in = vec![None; enc_slots];
        let slot_of = |name: &str| -> Option<(bool, usize)> {
            // returns (is_encoder, slot index)
            let rest = name.strip_prefix("past_key_values.").or_else(|| name.strip_prefix("present."))?;
            let (layer, kind) = rest.split_once('.')?;
            let layer: usize = layer.parse().ok()?;
            match kind {
                "decoder.key" => Some((false, layer)),
                "encoder.key" => Some((true, layer)),
                "key" => Some((false, layer * 2)),
                "value" => Some((false, layer * 2 + 1)),
                _ => None,
            }
        };
        for (id, v) in &inputs {
            let name = self.name_of(*id).to_string();
            let view = v.as_view();
            match name.as_str() {
                "input_ids" => rec.tokens = i32s(&view).map(|x| x.1).unwrap_or_default(),
                "position_ids" => rec.position_ids = i32s(&view).map(|x| x.1),
                "cache_position" => rec.cache_position = i32s(&view).map(|x| x.1),
                "attention_mask" => rec.attention_mask = i32s(&view).map(|(s, d)| (s, d.iter().all(|x| *x == 1))),
                "use_cache_branch" => rec.use_cache = i32s(&view).and_then(|x| x.1.first().copied()),
                n => {
                    if let Some((enc, slot)) = slot_of(n) {
                        if matches!(v, ValueOrView::Value(_)) {
                            rec.owned_kv = true;
                        }
                        if enc {
                            rec.enc_in[slot] = f32s(&view);
                        } else {
                            rec.kv_in[slot] = f32s(&view);
                        }
                    }
                }
            }
        }
        // like a real model: every declared input is required
        for id in &self.inputs {
            if !inputs.iter().any(|(i, _)| i == id) {
                rec.failed = true;
                let name = self.name_of(*id).to_string();
                rec.missing_input = Some(name.clone());
                self.calls.borrow_mut().push(rec);
                return Err(format!("mock: missing input {name}").into());
            }
        }
        let logits_requested = outputs.iter().any(|id| self.name_of(*id) == "logits");
        if rec.tokens.is_empty() && !(self.cfg.accept_empty && !logits_requested) {
            rec.failed = true;
            self.calls.borrow_mut().push(rec);
            return Err("mock: empty input_ids".into());
        }
        let n = rec.tokens.len();
        let mut out = Vec::new();
        for id in outputs {
            let name = self.name_of(*id).to_string();
            if name == "logits" {
                rec.wants_logits = true;
                let seq = if fault == Some(Fault::EmptyLogits) { 0 } else { n };
                let mut t = Tensor::<f32>::zeros(&[1, seq, self.cfg.vocab]);
                if seq > 0 {
                    t[[0, seq - 1, mock_token(call_no, self.cfg.vocab) as usize]] = 1.0;
                }
                out.push(Value::from(t));
            } else if let Some((enc, slot)) = slot_of(&name) {
                if enc {
                    // returned on the first run only, dummy empty tensors afterwards
                    let first = rec.enc_in[slot].as_ref().map(|(s, _)| s.iter().product::<usize>() == 0).unwrap_or(true);
                    let t = if first {
                        let shape: Vec<usize> = if self.cfg.kv_rank == 3 { vec![1, 4, CHANS] } else { vec![1, HEADS, 4, CHANS] };
                        let len: usize = shape.iter().product();
                        Tensor::from_data(&shape, (0..len).map(|i| 5000.0 + slot as f32 * 100.0 + i as f32).collect::<Vec<_>>())
                    } else {
                        Tensor::<f32>::zeros(&[0])
                    };
                    rec.enc_out.push((t.shape().to_vec(), t.iter().copied().collect()));
                    out.push(Value::from(t));
                } else {
                    // past cache extended by `n` rows with a value unique to (call, slot)
                    let (shape, data) = rec.kv_in[slot].clone().unwrap_or((if self.cfg.kv_rank == 3 { vec![1, 0, CHANS] } else { vec![1, HEADS, 0, CHANS] }, vec![]));
                    let t = if fault == Some(Fault::WrongRankCache) {
                        Tensor::<f32>::zeros(&[1, 1])
                    } else if self.cfg.kv_rank == 3 {
                        let past = shape[1];
                        let mut d = data.clone();
                        d.extend(std::iter::repeat((call_no * 100 + slot) as f32 + 1.0).take(n * CHANS));
                        Tensor::from_data(&[1, past + n, CHANS], d)
                    } else {
                        let past = shape[2];
                        let mut d = Vec::new();
                        for h in 0..HEADS {
                            d.extend_from_slice(&data[h * past * CHANS..(h + 1) * past * CHANS]);
                            d.extend(std::iter::repeat((call_no * 100 + slot) as f32 + 1.0 + h as f32 * 0.5).take(n * CHANS));
                        }
                        Tensor::from_data(&[1, HEADS, past + n, CHANS], d)
                    };
                    rec.kv_out.push((t.shape().to_vec(), t.iter().copied().collect()));
                    out.push(Value::from(t));
                }
            } else {
                rec.failed = true;
                self.calls.borrow_mut().push(rec);
                return Err(format!("mock: unknown output {name}").into());
            }
        }
        if fault == Some(Fault::OmitOutput) && !out.is_empty() {
            out.pop();
        }
        self.calls.borrow_mut().push(rec);
        Ok(out)
    }

    fn partial_run(&self, _inputs: Vec<(NodeId, ValueOrView)>, _outputs: &[NodeId], _opts: Option<RunOptions>) -> Result<Vec<(NodeId, Value)>, Box<dyn Error>> {
        Ok(Vec::new())
    }
}

/// A pass-through logits filter that records the token history it is shown.
struct RecordingFilter<'a> {
    seen: &'a RefCell<Vec<Vec<u32>>>,
}

impl LogitsFilter for RecordingFilter<'_> {
    fn filter(&self, logits: Logits, prev_tokens: &[u32]) -> Logits {
        self.seen.borrow_mut().push(prev_tokens.to_vec());
        logits
    }
}

// ------------------------------------------------------------------ reference model

#[derive(Default)]
struct RefState {
    /// Tokens that the next model call must receive, in order.
    pending: Vec<u32>,
    /// How many leading `pending` tokens are already in the log (submitted
    /// before, for models without a KV cache, or produced by the sampler).
    logged: usize,
    /// Position of `pending[0]` (KV-cache models).
    pos: usize,
    /// Every token submitted to or produced by the model, in order.
    log: Vec<u32>,
    /// The caches the model last returned, per slot.
    last_kv: Option<Vec<(Vec<usize>, Vec<f32>)>>,
    last_enc: Option<Vec<(Vec<usize>, Vec<f32>)>>,
    /// Some call failed or returned malformed outputs: from here on a call may
    /// fail, but one that succeeds must still be consistent.
    degraded: bool,
}

struct GenEngine {
    exh_cfgs: Vec<MockCfg>,
    exh_prompts: Vec<Option<Vec<u32>>>,
    exh_hist: u64,
    exh_maxlen: usize,
    seeded: u64,
}

const EXH_OPS: u64 = 6;

fn exh_op(d: u64) -> Op {
    match d {
        0 => Op::Append(vec![4]),
        1 => Op::Append(vec![5, 6]),
        2 => Op::Next,
        3 => Op::ProcessPrompt,
        4 => Op::Clear,
        _ => Op::SetPrompt(vec![7, 8]),
    }
}

fn exh_count(maxlen: usize) -> u64 {
    (0..=maxlen).map(|l| EXH_OPS.pow(l as u32)).sum()
}

fn exh_history(mut idx: u64, maxlen: usize) -> Vec<Op> {
    let mut len = 0;
    loop {
        let n = EXH_OPS.pow(len as u32);
        if idx < n || len == maxlen {
            break;
        }
        idx -= n;
        len += 1;
    }
    (0..len)
        .map(|_| {
            let d = idx % EXH_OPS;
            idx /= EXH_OPS;
            exh_op(d)
        })
        .collect()
}

fn opname(op: &Op) -> &'static str {
    match op {
        Op::Append(_) => "append_prompt",
        Op::Next => "next",
        Op::ProcessPrompt => "process_prompt",
        Op::Clear => "clear_prompt",
        Op::SetPrompt(_) => "with_prompt",
    }
}

impl Engine for GenEngine {
    type Case = GenCase;

    fn name() -> &'static str {
        "sim_generator"
    }
    fn engine_id() -> u64 {
        32
    }
    fn properties() -> Vec<&'static str> {
        vec!["C32"]
    }

    fn new(_p: &str, tier: Tier, _seed: u64) -> Self {
        let base = MockCfg { kv_rank: 4, layers: 1, encoder_cache: false, attention_mask: true, position_ids: true, cache_position: false, use_cache_branch: false, vocab: 11, kv_capacity: None, filter: true, accept_empty: false };
        let exh_cfgs = vec![
            base.clone(),
            MockCfg { kv_rank: 0, ..base.clone() },
            MockCfg { kv_rank: 3, layers: 2, cache_position: true, use_cache_branch: true, kv_capacity: Some(3), ..base.clone() },
            MockCfg { kv_rank: 4, encoder_cache: true, attention_mask: false, ..base.clone() },
            MockCfg { accept_empty: true, ..base.clone() },
        ];
        let maxlen = match tier {
            Tier::Quick => 6,
            Tier::Thorough => 7,
        };
        GenEngine {
            exh_cfgs,
            exh_prompts: vec![None, Some(vec![1]), Some(vec![1, 2, 3])],
            exh_hist: exh_count(maxlen),
            exh_maxlen: maxlen,
            seeded: match tier {
                Tier::Quick => 4_000_000,
                Tier::Thorough => 300_000_000,
            },
        }
    }

    fn info(&self) -> EngineInfo {
        EngineInfo {
            level: "exploration",
            rule: format!(
                "Exhaustive sub-space: every history of length <= {} over {{append_prompt([a]), append_prompt([a,b]), next, process_prompt, clear_prompt, with_prompt([a,b])}} x initial with_prompt in {{none, [1], [1,2,3]}} x 5 mock configurations (4-d KV cache; no KV cache; 3-d KV cache with 2 layers, cache_position, use_cache_branch and a small kv_cache_capacity; encoder+decoder caches; 4-d KV cache with a model that accepts a run without tokens) = {} histories, fault-free. Then seeded histories of up to 40 operations with random mock configuration and, in half of the cases, injected model faults (call fails before doing anything, returns caches of the wrong rank, empty logits, one output missing). Non-trivial = the history contains an append/clear after the first model call, or a fault fired; distinct = hash of the explicit case.",
                self.exh_maxlen,
                self.exh_cfgs.len() as u64 * self.exh_prompts.len() as u64 * self.exh_hist
            ),
            real_components: vec!["rten_generate::Generator (from_model_config, with_prompt, append_prompt, clear_prompt, next, process_prompt, prev_tokens, KV-cache hand-off and growth), ArgMax sampler, LogitsFilter plumbing".into()],
            stub_components: vec!["the model: a mock implementing rten_generate::model::Model that records every call and injects failures".into()],
            assumptions: vec![
                "the mock behaves like a real model: every declared input is required, an empty input_ids is an error".into(),
                "after an injected model failure later calls may fail; a call that succeeds must still satisfy every check. Panics after *malformed* model outputs are counted as a probe, not judged (the statement is about what the model is fed)".into(),
            ],
            technique: "deterministic simulation: exhaustive + seeded call histories with injected model faults, checked per call against a reference state machine".into(),
            hang_secs: 30,
            expected_probes: vec![
                "probe:model_calls".into(), "probe:append_after_generation".into(), "probe:clear_with_pending".into(), "probe:kv_cache_grew".into(), "probe:encoder_cache_reused".into(),
                "fault:model_fail_before".into(), "fault:wrong_rank_cache".into(), "fault:empty_logits".into(), "fault:omit_output".into(), "probe:filter_saw_history".into(), "probe:no_kv_model".into(),
            ],
        }
    }

    fn num_cases(&self) -> u64 {
        self.exh_cfgs.len() as u64 * self.exh_prompts.len() as u64 * self.exh_hist + self.seeded
    }

    fn make_case(&self, index: u64, seed: u64) -> GenCase {
        let per_cfg = self.exh_prompts.len() as u64 * self.exh_hist;
        let exh_total = self.exh_cfgs.len() as u64 * per_cfg;
        if index < exh_total {
            let cfg = self.exh_cfgs[(index / per_cfg) as usize].clone();
            let rest = index % per_cfg;
            let with_prompt = self.exh_prompts[(rest / self.exh_hist) as usize].clone();
            return GenCase { cfg, with_prompt, history: exh_history(rest % self.exh_hist, self.exh_maxlen), faults: vec![], note: "exhaustive".into() };
        }
        let mut r = Rng::new(seed);
        let kv_rank = *r.pick(&[0u8, 3, 4, 4]);
        let cfg = MockCfg {
            kv_rank,
            layers: r.urange(1, 3),
            encoder_cache: kv_rank != 0 && r.chance(1, 4),
            attention_mask: r.bool(),
            position_ids: r.bool(),
            cache_position: r.chance(1, 3),
            use_cache_branch: r.chance(1, 3),
            vocab: r.urange(2, 17),
            kv_capacity: if r.bool() { Some(r.urange(1, 9)) } else { None },
            filter: r.bool(),
            accept_empty: r.chance(1, 3),
        };
        let tok = |r: &mut Rng| r.below(cfg.vocab as u64) as u32;
        let with_prompt = if r.chance(3, 4) { Some((0..r.urange(0, 5)).map(|_| tok(&mut r)).collect()) } else { None };
        let hl = r.urange(1, 40);
        let mut history = Vec::new();
        for _ in 0..hl {
            history.push(match r.below(11) {
                10 => Op::SetPrompt((0..r.urange(0, 4)).map(|_| tok(&mut r)).collect()),
                0 | 1 => Op::Append((0..r.urange(0, 4)).map(|_| tok(&mut r)).collect()),
                2..=6 => Op::Next,
                7 => Op::ProcessPrompt,
                8 => Op::Clear,
                _ => Op::Append(vec![tok(&mut r)]),
            });
        }
        let mut faults = Vec::new();
        if r.bool() {
            for _ in 0..r.urange(1, 2) {
                let f = match r.below(4) {
                    0 => Fault::FailBefore,
                    1 => Fault::WrongRankCache,
                    2 => Fault::EmptyLogits,
                    _ => Fault::OmitOutput,
                };
                faults.push((r.usize_below(12), f));
            }
        }
        GenCase { cfg, with_prompt, history, faults, note: "seeded".into() }
    }

    fn run_case(&self, case: &GenCase, ctx: &mut Ctx) -> Outcome {
        let cfg = &case.cfg;
        if cfg.vocab == 0 || cfg.layers == 0 || cfg.layers > 8 {
            return Outcome { executions: 1, ..Default::default() };
        }
        let mock = Mock::new(cfg, &case.faults);
        let seen = RefCell::new(Vec::<Vec<u32>>::new());
        let has_kv = cfg.kv_rank != 0;
        let mut trace: Vec<u64> = Vec::new();
        let mut steps = 0u64;
        let mut nontrivial = false;

        let made = catch(|| {
            let gc = GeneratorConfig { model_inputs: ModelInputsConfig::default(), kv_cache_capacity: cfg.kv_capacity };
            Generator::from_model_config(&mock, gc)
        });
        let mut generator = match made {
            Ok(Ok(g)) => g,
            Ok(Err(e)) => {
                return Outcome { violation: Some(Violation::new("C32/setup-failed", format!("Generator::from_model_config failed on a well-formed mock: {e}"))), executions: 1, ..Default::default() };
            }
            Err(p) => {
                return Outcome { violation: Some(Violation::new("C32/panic/from_model_config", format!("{} at {}", p.message, p.location))), executions: 1, ..Default::default() };
            }
        };
        if cfg.filter {
            generator = generator.with_logits_filter(RecordingFilter { seen: &seen });
        }
        let mut st = RefState::default();
        if let Some(p) = &case.with_prompt {
            generator = generator.with_prompt(p);
            st.pending = p.clone();
            st.logged = 0;
        }
        if !has_kv {
            ctx.count("probe:no_kv_model");
        }

        let mut violation: Option<Violation> = None;
        let mut calls_before = 0usize;
        let mut any_call = false;
        'hist: for (i, op) in case.history.iter().enumerate() {
            steps += 1;
            let name = opname(op);
            match op {
                Op::Append(t) => {
                    if any_call && !t.is_empty() {
                        ctx.count("probe:append_after_generation");
                        nontrivial = true;
                    }
                    generator.append_prompt(t);
                    st.pending.extend(t);
                }
                Op::Clear => {
                    if !st.pending.is_empty() {
                        ctx.count("probe:clear_with_pending");
                        if any_call {
                            nontrivial = true;
                        }
                    }
                    generator.clear_prompt();
                    st.pending.clear();
                    st.logged = 0;
                }
                Op::SetPrompt(t) => {
                    if any_call {
                        ctx.count("probe:with_prompt_after_generation");
                        nontrivial = true;
                    }
                    // a panic here (e.g. slicing with a stale length) is a panic of the history
                    match catch(std::panic::AssertUnwindSafe(|| generator.with_prompt(t))) {
                        Ok(g) => generator = g,
                        Err(p) => {
                            violation = Some(Violation::new("C32/panic/with_prompt", format!("op {i}: with_prompt panicked: {} at {}", p.message, p.location)));
                            break 'hist;
                        }
                    }
                    st.pending = t.clone();
                    st.logged = 0;
                }
                Op::Next | Op::ProcessPrompt => {
                    let is_next = matches!(op, Op::Next);
                    let filter_calls_before = seen.borrow().len();
                    let r = catch(std::panic::AssertUnwindSafe(|| if is_next { generator.next().expect("generator is endless").map(Some) } else { generator.process_prompt().map(|_| None) }));
                    let recs: Vec<CallRecord> = mock.calls.borrow()[calls_before..].to_vec();
                    calls_before += recs.len();
                    ctx.add("probe:model_calls", recs.len() as u64);
                    any_call = any_call || !recs.is_empty();
                    for rec in &recs {
                        match &rec.fault {
                            Some(Fault::FailBefore) => ctx.count("fault:model_fail_before"),
                            Some(Fault::WrongRankCache) => ctx.count("fault:wrong_rank_cache"),
                            Some(Fault::EmptyLogits) => ctx.count("fault:empty_logits"),
                            Some(Fault::OmitOutput) => ctx.count("fault:omit_output"),
                            None => {}
                        }
                        if rec.fault.is_some() {
                            nontrivial = true;
                        }
                    }
                    let malformed = recs.iter().any(|r| matches!(r.fault, Some(Fault::WrongRankCache) | Some(Fault::EmptyLogits) | Some(Fault::OmitOutput)));
                    let result = match r {
                        Ok(x) => x,
                        Err(p) => {
                            if malformed || st.degraded {
                                ctx.count("probe:panic_after_malformed_model_output");
                                st.degraded = true;
                                break 'hist;
                            }
                            violation = Some(Violation::new(format!("C32/panic/{name}"), format!("op {i} ({name}) panicked with a well-behaved model: {} at {}", p.message, p.location)));
                            break 'hist;
                        }
                    };
                    trace.push(mix(&[i as u64, result.is_ok() as u64, recs.len() as u64]));
                    if recs.len() > 1 {
                        violation = Some(Violation::new(format!("C32/extra-model-call/{name}"), format!("op {i} ({name}) ran the model {} times", recs.len())));
                        break 'hist;
                    }
                    let rec = recs.first();
                    let model_ok = rec.map(|r| !r.failed).unwrap_or(false);
                    if rec.is_none() {
                        // nothing was submitted
                        if result.is_ok() && !st.degraded {
                            violation = Some(Violation::new(format!("C32/no-model-call/{name}"), format!("op {i} ({name}) returned Ok without running the model")));
                            break 'hist;
                        }
                        st.degraded = true;
                        continue;
                    }
                    let rec = rec.unwrap();
                    if rec.fault == Some(Fault::FailBefore) {
                        if result.is_ok() {
                            violation = Some(Violation::new(format!("C32/error-swallowed/{name}"), format!("op {i}: the model call failed but {name} returned Ok")));
                            break 'hist;
                        }
                        st.degraded = true;
                        continue;
                    }
                    if rec.failed && rec.tokens.is_empty() && st.pending.is_empty() {
                        // nothing was pending: the (mock) model rejects an empty input, as real models do
                        if result.is_ok() {
                            violation = Some(Violation::new(format!("C32/error-swallowed/{name}"), format!("op {i}: the model call failed but {name} returned Ok")));
                            break 'hist;
                        }
                        st.degraded = true;
                        continue;
                    }
                    // --- what was submitted -------------------------------------------------
                    let got_tokens: Vec<u32> = rec.tokens.iter().map(|t| *t as u32).collect();
                    if got_tokens != st.pending {
                        violation = Some(Violation::new(
                            format!("C32/wrong-tokens-submitted/{name}"),
                            format!("op {i} ({name}): the model received tokens {:?} but the pending tokens are {:?}", got_tokens, st.pending),
                        ));
                        break 'hist;
                    }
                    let n = got_tokens.len();
                    let want_pos: Vec<i32> = (st.pos..st.pos + n).map(|p| p as i32).collect();
                    if has_kv || st.pos == 0 {
                        if let Some(p) = &rec.position_ids {
                            if *p != want_pos {
                                violation = Some(Violation::new(format!("C32/wrong-positions/{name}"), format!("op {i}: position_ids {:?}, expected {:?}", p, want_pos)));
                                break 'hist;
                            }
                        }
                        if let Some(p) = &rec.cache_position {
                            if *p != want_pos {
                                violation = Some(Violation::new(format!("C32/wrong-positions/{name}"), format!("op {i}: cache_position {:?}, expected {:?}", p, want_pos)));
                                break 'hist;
                            }
                        }
                        if let Some((shape, ones)) = &rec.attention_mask {
                            if *shape != vec![1, st.pos + n] || !ones {
                                violation = Some(Violation::new(format!("C32/wrong-positions/{name}"), format!("op {i}: attention_mask shape {:?} (all ones: {ones}), expected [1, {}]", shape, st.pos + n)));
                                break 'hist;
                            }
                        }
                        if let Some(f) = rec.use_cache {
                            if (f != 0) != (st.pos != 0) {
                                violation = Some(Violation::new(format!("C32/wrong-positions/{name}"), format!("op {i}: use_cache_branch={f} at position {}", st.pos)));
                                break 'hist;
                            }
                        }
                    }
                    if has_kv {
                        // the cache passed in is the one last returned
                        for (slot, kin) in rec.kv_in.iter().enumerate() {
                            let Some((shape, data)) = kin else {
                                if st.degraded {
                                    continue;
                                }
                                violation = Some(Violation::new(format!("C32/cache-not-passed/{name}"), format!("op {i}: self-attention cache slot {slot} was not passed to the model")));
                                break 'hist;
                            };
                            let seq_axis = if cfg.kv_rank == 3 { 1 } else { 2 };
                            match &st.last_kv {
                                None => {
                                    if shape[seq_axis] != 0 {
                                        violation = Some(Violation::new(format!("C32/wrong-cache/{name}"), format!("op {i}: first call got a cache of sequence length {}", shape[seq_axis])));
                                        break 'hist;
                                    }
                                }
                                Some(last) => {
                                    if last[slot].0 != *shape || last[slot].1 != *data {
                                        violation = Some(Violation::new(
                                            format!("C32/wrong-cache/{name}"),
                                            format!("op {i}: cache slot {slot} passed in has shape {:?} but the cache last returned had shape {:?} (contents equal: {})", shape, last[slot].0, last[slot].1 == *data),
                                        ));
                                        break 'hist;
                                    }
                                }
                            }
                            if shape[seq_axis] != st.pos && !st.degraded {
                                violation = Some(Violation::new(format!("C32/wrong-cache/{name}"), format!("op {i}: cache sequence length {} but {} tokens were fed so far", shape[seq_axis], st.pos)));
                                break 'hist;
                            }
                        }
                        for (slot, ein) in rec.enc_in.iter().enumerate() {
                            if let (Some(last), Some((shape, data))) = (&st.last_enc, ein) {
                                ctx.count("probe:encoder_cache_reused");
                                if last[slot].0 != *shape || last[slot].1 != *data {
                                    violation = Some(Violation::new(format!("C32/wrong-cache/{name}"), format!("op {i}: encoder cache slot {slot} differs from the one the model returned")));
                                    break 'hist;
                                }
                            }
                        }
                    }
                    if let (Some(missing), false) = (&rec.missing_input, st.degraded) {
                        // no model failure and no malformed output so far: the generator simply did not pass
                        // an input the model declares (e.g. a cache it was handed back earlier)
                        violation = Some(Violation::new(format!("C32/declared-input-not-passed/{name}"), format!("op {i} ({name}): the model was run without its declared input {missing:?}")));
                        break 'hist;
                    }
                    if rec.failed {
                        // the mock rejected the call (an input is missing after an earlier failure)
                        if result.is_ok() {
                            violation = Some(Violation::new(format!("C32/error-swallowed/{name}"), format!("op {i}: the model call failed but {name} returned Ok")));
                            break 'hist;
                        }
                        st.degraded = true;
                        continue;
                    }
                    if is_next != rec.wants_logits {
                        violation = Some(Violation::new(format!("C32/wrong-outputs-requested/{name}"), format!("op {i}: logits requested = {}", rec.wants_logits)));
                        break 'hist;
                    }
                    // --- the call reached the model: update the reference ---------------------
                    if malformed {
                        st.degraded = true;
                        if result.is_ok() && rec.fault != Some(Fault::EmptyLogits) && rec.fault != Some(Fault::OmitOutput) {
                            // accepted a malformed cache: not judged, but nothing more can be checked
                        }
                        break 'hist;
                    }
                    if !model_ok {
                        st.degraded = true;
                        continue;
                    }
                    if let Err(e) = &result {
                        violation = Some(Violation::new(format!("C32/spurious-error/{name}"), format!("op {i} ({name}) failed although the model call succeeded: {e}")));
                        break 'hist;
                    }
                    // tokens submitted for the first time enter the log
                    st.log.extend_from_slice(&st.pending[st.logged.min(st.pending.len())..]);
                    st.logged = st.pending.len();
                    if has_kv {
                        st.pos += n;
                        st.pending.clear();
                        st.logged = 0;
                        if let Some(last) = &st.last_kv {
                            if rec.kv_out.first().map(|o| o.1.len()).unwrap_or(0) > last.first().map(|o| o.1.len()).unwrap_or(0) && cfg.kv_capacity.is_some() {
                                ctx.count("probe:kv_cache_grew");
                            }
                        }
                        st.last_kv = Some(rec.kv_out.clone());
                        if rec.enc_out.iter().any(|(s, _)| s.iter().product::<usize>() > 0) {
                            st.last_enc = Some(rec.enc_out.clone());
                        }
                    }
                    if is_next {
                        // the filter sees the history *before* the new token is appended
                        if cfg.filter {
                            let s = seen.borrow();
                            if s.len() != filter_calls_before + 1 {
                                violation = Some(Violation::new("C32/filter-not-called/next", format!("op {i}: the logits filter was called {} times", s.len() - filter_calls_before)));
                                break 'hist;
                            }
                            ctx.count("probe:filter_saw_history");
                            if s[s.len() - 1] != st.log {
                                violation = Some(Violation::new(
                                    "C32/wrong-prev-tokens/filter",
                                    format!("op {i} (next): the logits filter was shown previous tokens {:?} but the tokens submitted/produced so far are {:?}", s[s.len() - 1], st.log),
                                ));
                                break 'hist;
                            }
                        }
                        let want = mock_token(calls_before - 1, cfg.vocab);
                        let got = result.as_ref().ok().cloned().flatten();
                        if got != Some(want) {
                            violation = Some(Violation::new("C32/wrong-token-returned/next", format!("op {i}: next returned {:?}, the model's arg-max token is {want}", got)));
                            break 'hist;
                        }
                        st.log.push(want);
                        st.pending.push(want);
                        st.logged = st.pending.len();
                    }
                }
            }
            // after every operation: the recorded previous tokens
            if !st.degraded {
                let prev = generator.prev_tokens().to_vec();
                trace.push(fnv64(format!("{prev:?}").as_bytes()));
                if prev != st.log {
                    violation = Some(Violation::new(
                        format!("C32/wrong-prev-tokens/{name}"),
                        format!("after op {i} ({name}): prev_tokens() = {:?} but the tokens submitted to / produced by the model are {:?}", prev, st.log),
                    ));
                    break 'hist;
                }
            }
        }
        Outcome { violation, nontrivial, steps: steps.max(1), trace_hash: mix(&trace), executions: 1, ..Default::default() }
    }

    fn shrink(&self, case: &GenCase) -> Vec<GenCase> {
        let mut out = Vec::new();
        for i in (0..case.history.len()).rev() {
            let mut c = case.clone();
            c.history.remove(i);
            out.push(c);
        }
        for i in 0..case.faults.len() {
            let mut c = case.clone();
            c.faults.remove(i);
            out.push(c);
        }
        for (i, op) in case.history.iter().enumerate() {
            if let Op::Append(t) = op {
                if t.len() > 1 {
                    let mut c = case.clone();
                    c.history[i] = Op::Append(t[..t.len() - 1].to_vec());
                    out.push(c);
                }
            }
        }
        if let Some(p) = &case.with_prompt {
            if !p.is_empty() {
                let mut c = case.clone();
                c.with_prompt = Some(p[..p.len() - 1].to_vec());
                out.push(c);
            } else {
                let mut c = case.clone();
                c.with_prompt = None;
                out.push(c);
            }
        }
        let simple = MockCfg { kv_rank: case.cfg.kv_rank, layers: 1, encoder_cache: false, attention_mask: false, position_ids: false, cache_position: false, use_cache_branch: false, vocab: case.cfg.vocab, kv_capacity: None, filter: false, accept_empty: case.cfg.accept_empty };
        if simple != case.cfg {
            out.push(GenCase { cfg: simple, ..case.clone() });
            for k in 0..6 {
                let mut c = case.clone();
                match k {
                    0 => c.cfg.encoder_cache = false,
                    1 => c.cfg.layers = 1,
                    2 => c.cfg.kv_capacity = None,
                    3 => c.cfg.filter = false,
                    4 => {
                        c.cfg.attention_mask = false;
                        c.cfg.position_ids = false;
                    }
                    _ => {
                        c.cfg.cache_position = false;
                        c.cfg.use_cache_branch = false;
                    }
                }
                if c.cfg != case.cfg {
                    out.push(c);
                }
            }
        }
        out
    }
}

fn main() {
    driver::main::<GenEngine>();
}
