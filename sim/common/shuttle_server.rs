//! One long-lived Shuttle `Runner` per worker process.
//!
//! `Runner::run` owns a pool of coroutine stacks that lives only as long as the
//! call; with one `Runner` per case every execution maps and unmaps its stacks
//! again, which dominates the cost of short executions (and scales badly over
//! 16 worker processes). Here a server thread stays inside a single
//! `Runner::run`: its scheduler's `new_execution` blocks until the next case
//! arrives, runs it under the scheduler the case names, and reports back. A
//! failed execution (deadlock, step budget, panic outside a caught call) tears
//! that `Runner` down; the server reports the panic and starts another one.
//!
//! Included with `#[path]` by the engines that use Shuttle.

use serde::{Deserialize, Serialize};
use shuttle::scheduler::{PctScheduler, RandomScheduler, Schedule, Scheduler, Task, TaskId};
use simcore::catch::{catch, PanicInfo};
use std::sync::mpsc::{channel, Receiver, Sender};
use std::sync::{Arc, Mutex as StdMutex, OnceLock};

#[derive(Clone, Debug, Serialize, Deserialize, PartialEq)]
pub enum Sched {
    Random { seed: u64 },
    Pct { seed: u64, depth: usize },
    /// Follow this list of task ids; when it runs out or names a task that is
    /// not runnable, continue with the current task, else the first runnable one.
    Explicit(Vec<usize>),
}

struct Guided {
    list: Vec<usize>,
    pos: usize,
}

impl Scheduler for Guided {
    fn new_execution(&mut self) -> Option<Schedule> {
        self.pos = 0;
        Some(Schedule::new(0))
    }
    fn next_task(&mut self, runnable: &[&Task], current: Option<TaskId>, _is_yielding: bool) -> Option<TaskId> {
        let want = self.list.get(self.pos).copied();
        self.pos += 1;
        if let Some(w) = want {
            if let Some(t) = runnable.iter().find(|t| usize::from(t.id()) == w) {
                return Some(t.id());
            }
        }
        if let Some(c) = current {
            if runnable.iter().any(|t| t.id() == c) {
                return Some(c);
            }
        }
        runnable.first().map(|t| t.id())
    }
    fn next_u64(&mut self) -> u64 {
        0x9E37_79B9_7F4A_7C15
    }
}

type Body = Arc<dyn Fn() + Send + Sync + 'static>;

struct Job {
    sched: Sched,
    body: Body,
}

/// What the server thread shares with the scheduler inside the `Runner`.
struct Link {
    jobs: StdMutex<Receiver<Job>>,
    done: StdMutex<Sender<(Result<(), PanicInfo>, Vec<usize>)>>,
    body: StdMutex<Option<Body>>,
    log: StdMutex<Vec<usize>>,
    in_flight: StdMutex<bool>,
}

struct Meta {
    link: Arc<Link>,
    inner: Option<Box<dyn Scheduler + Send>>,
}

impl Scheduler for Meta {
    fn new_execution(&mut self) -> Option<Schedule> {
        // the previous execution ended without a failure
        let was = std::mem::replace(&mut *self.link.in_flight.lock().unwrap(), false);
        if was {
            let log = std::mem::take(&mut *self.link.log.lock().unwrap());
            let _ = self.link.done.lock().unwrap().send((Ok(()), log));
        }
        let job = self.link.jobs.lock().unwrap().recv().ok()?;
        let mut inner: Box<dyn Scheduler + Send> = match job.sched {
            Sched::Random { seed } => Box::new(RandomScheduler::new_from_seed(seed, 1)),
            Sched::Pct { seed, depth } => Box::new(PctScheduler::new_from_seed(seed, depth.max(1), 1)),
            Sched::Explicit(list) => Box::new(Guided { list, pos: 0 }),
        };
        let schedule = inner.new_execution()?;
        self.inner = Some(inner);
        *self.link.body.lock().unwrap() = Some(job.body);
        self.link.log.lock().unwrap().clear();
        *self.link.in_flight.lock().unwrap() = true;
        Some(schedule)
    }
    fn next_task(&mut self, runnable: &[&Task], current: Option<TaskId>, is_yielding: bool) -> Option<TaskId> {
        let t = self.inner.as_mut()?.next_task(runnable, current, is_yielding);
        if let Some(t) = t {
            self.link.log.lock().unwrap().push(usize::from(t));
        }
        t
    }
    fn next_u64(&mut self) -> u64 {
        self.inner.as_mut().map(|i| i.next_u64()).unwrap_or(0)
    }
}

pub struct Server {
    jobs: StdMutex<Sender<Job>>,
    done: StdMutex<Receiver<(Result<(), PanicInfo>, Vec<usize>)>>,
}

fn server_loop(link: Arc<Link>, config: fn() -> shuttle::Config) {
    loop {
        let l2 = link.clone();
        let l3 = link.clone();
        let r = catch(move || {
            shuttle::Runner::new(Meta { link: l2, inner: None }, config()).run(move || {
                let body = l3.body.lock().unwrap().clone();
                if let Some(b) = body {
                    b()
                }
            });
        });
        match r {
            // the job channel closed
            Ok(()) => return,
            Err(p) => {
                let was = std::mem::replace(&mut *link.in_flight.lock().unwrap_or_else(|e| e.into_inner()), false);
                if was {
                    let log = std::mem::take(&mut *link.log.lock().unwrap_or_else(|e| e.into_inner()));
                    let _ = link.done.lock().unwrap_or_else(|e| e.into_inner()).send((Err(p), log));
                }
            }
        }
    }
}

static SERVER: OnceLock<Server> = OnceLock::new();

/// Run `body` as one Shuttle execution under `sched`. Returns the outcome of
/// the execution (Err = Shuttle reported a failure: deadlock, step budget,
/// uncaught panic) and the task chosen at every scheduling point.
///
/// `on_rayon_worker`: make the server thread the only worker of a private
/// rayon pool, so that code under test which calls rayon directly runs in
/// place on the scheduler's thread.
pub fn execute(sched: &Sched, config: fn() -> shuttle::Config, on_rayon_worker: bool, body: impl Fn() + Send + Sync + 'static) -> (Result<(), PanicInfo>, Vec<usize>) {
    let server = SERVER.get_or_init(|| {
        let (jtx, jrx) = channel::<Job>();
        let (dtx, drx) = channel();
        let link = Arc::new(Link { jobs: StdMutex::new(jrx), done: StdMutex::new(dtx), body: StdMutex::new(None), log: StdMutex::new(Vec::new()), in_flight: StdMutex::new(false) });
        simcore::catch::install_hook();
        if on_rayon_worker {
            let pool = rayon::ThreadPoolBuilder::new().num_threads(1).stack_size(16 << 20).build().expect("rayon pool");
            // the pool lives as long as the process
            let pool: &'static rayon::ThreadPool = Box::leak(Box::new(pool));
            pool.spawn(move || server_loop(link, config));
        } else {
            std::thread::Builder::new().name("shuttle-server".into()).stack_size(16 << 20).spawn(move || server_loop(link, config)).expect("server thread");
        }
        Server { jobs: StdMutex::new(jtx), done: StdMutex::new(drx) }
    });
    server.jobs.lock().unwrap().send(Job { sched: sched.clone(), body: Arc::new(body) }).expect("shuttle server gone");
    server.done.lock().unwrap().recv().expect("shuttle server gone")
}
