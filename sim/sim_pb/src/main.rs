//! sim_pb — C38: the ONNX protobuf decoder terminates and never panics.
//!
//! The "disk" is a byte string; the simulator owns (a) which bytes are stored
//! (truncation, bit flips, lying length fields, deep nesting) and (b) how the
//! device delivers them (short reads, EINTR, I/O errors, early EOF), with an
//! operation budget that turns a non-terminating decode into a verdict.

mod walker;

use onnxenc::MarkKind;
use rten_onnx::onnx::{self, ModelProto};
use rten_onnx::protobuf::{DecodeMessage, ReadPos, ValueReader};
use serde::{Deserialize, Serialize};
use simcore::catch::{catch, panic_site};
use simcore::devices::{apply_faults, ByteFault, ReadPlan, SimFile};
use simcore::driver::{self, Ctx, Engine, EngineInfo, Outcome, Tier, Violation};
use simcore::rng::{fnv64, mix, Rng};
use std::cell::Cell;
use std::io::BufReader;
use std::rc::Rc;

#[derive(Clone, Debug, Serialize, Deserialize, PartialEq)]
pub enum Base {
    Corpus(usize),
    /// Hex-encoded bytes.
    Bytes(String),
    /// `nested_graph_model(depth)`.
    Nested(usize),
}

#[derive(Clone, Debug, Serialize, Deserialize)]
pub struct PbCase {
    pub base: Base,
    pub faults: Vec<ByteFault>,
    pub io: ReadPlan,
    /// Capacity of the `BufReader` between the decoder and the device.
    pub bufcap: usize,
    pub note: String,
}

fn hex(b: &[u8]) -> String {
    let mut s = String::with_capacity(b.len() * 2);
    for x in b {
        s.push_str(&format!("{:02x}", x));
    }
    s
}

fn unhex(s: &str) -> Vec<u8> {
    let b = s.as_bytes();
    (0..b.len() / 2).map(|i| u8::from_str_radix(std::str::from_utf8(&b[2 * i..2 * i + 2]).unwrap_or("00"), 16).unwrap_or(0)).collect()
}

struct CorpusFile {
    name: String,
    bytes: Vec<u8>,
    marks: Vec<onnxenc::Mark>,
}

#[derive(Clone, Copy)]
enum Section {
    Special,
    Truncate { file: usize },
    MarkLie { file: usize },
    ByteFault { file: usize, stride: usize },
    Nested,
    Mix,
}

struct PbEngine {
    corpus: Vec<CorpusFile>,
    specials: Vec<(String, Vec<u8>)>,
    sections: Vec<(Section, u64, u64)>, // (section, first index, count)
    total: u64,
    nest_depths: Vec<usize>,
}

const N_EXTREMES: usize = 18;
const IO_ROT: usize = 6;

fn extreme_value(k: usize, mark_pos: usize, mark_len: usize, remaining_after: u64, orig: u64) -> u64 {
    // `field_start` = position of the tag; a skip of `2^64 - (bytes consumed up
    // to the payload)` lands exactly on the field again when the sum wraps.
    let payload_pos = (mark_pos + mark_len) as u64;
    match k {
        0 => 0,
        1 => orig.wrapping_add(1),
        2 => orig.wrapping_sub(1),
        3 => remaining_after,
        4 => remaining_after + 1,
        5 => 1 << 31,
        6 => (1 << 32) - 1,
        7 => 1 << 32,
        8 => (1u64 << 63) - 1,
        9 => 1u64 << 63,
        10 => (1u64 << 63) + 1,
        11 => u64::MAX,
        12 => u64::MAX - 1,
        13 => 0u64.wrapping_sub(payload_pos),         // pos + len wraps to 0
        14 => 0u64.wrapping_sub(payload_pos).wrapping_add(1),
        15 => 0u64.wrapping_sub(10),                   // wraps back onto this field for a 10-byte varint
        16 => 0u64.wrapping_sub(11),
        _ => (1u64 << 63).wrapping_sub(payload_pos),
    }
}

fn io_rotation(k: usize, len: usize) -> (ReadPlan, usize) {
    match k % IO_ROT {
        0 => (ReadPlan::default(), 8192),
        1 => (ReadPlan { max_read: 1, ..Default::default() }, 8192),
        2 => (ReadPlan { max_read: 7, ..Default::default() }, 16),
        3 => (ReadPlan::default(), 1),
        4 => (ReadPlan { max_read: 3, interrupt_calls: vec![(len as u64 / 7) % 5], ..Default::default() }, 64),
        _ => (ReadPlan { max_read: 0, error_at_offset: Some((len as u64 * 2) / 3), ..Default::default() }, 32),
    }
}

impl PbEngine {
    fn base_bytes(&self, base: &Base) -> Vec<u8> {
        match base {
            Base::Corpus(i) => self.corpus[*i % self.corpus.len()].bytes.clone(),
            Base::Bytes(h) => unhex(h),
            Base::Nested(d) => onnxenc::nested_graph_model(*d),
        }
    }
}

/// Hash every decoded field, so that two decodes can be compared although the
/// message types implement neither `PartialEq` nor a complete `Debug`.
fn fingerprint(m: &ModelProto) -> u64 {
    fn s(h: &mut u64, v: &Option<String>) {
        match v {
            Some(x) => *h = mix(&[*h, 1, fnv64(x.as_bytes())]),
            None => *h = mix(&[*h, 0]),
        }
    }
    fn tensor(h: &mut u64, t: &onnx::TensorProto) {
        for d in &t.dims {
            *h = mix(&[*h, *d as u64]);
        }
        *h = mix(&[*h, t.data_type.map(|d| (d.0 as u64).wrapping_add(1)).unwrap_or(0)]);
        for f in &t.float_data {
            *h = mix(&[*h, f.to_bits() as u64]);
        }
        for f in &t.int32_data {
            *h = mix(&[*h, *f as u64]);
        }
        for f in &t.int64_data {
            *h = mix(&[*h, *f as u64]);
        }
        for f in &t.double_data {
            *h = mix(&[*h, f.to_bits()]);
        }
        match &t.raw_data {
            Some(r) => *h = mix(&[*h, 1, fnv64(&r.borrow())]),
            None => *h = mix(&[*h, 0]),
        }
        s(h, &t.name);
        for e in &t.external_data {
            s(h, &e.key);
            s(h, &e.value);
        }
        *h = mix(&[*h, t.data_location.map(|d| (d.0 as u64).wrapping_add(1)).unwrap_or(0)]);
    }
    fn typ(h: &mut u64, t: &onnx::TypeProto, depth: usize) {
        if depth > 64 {
            return;
        }
        if let Some(tt) = &t.tensor_type {
            *h = mix(&[*h, 11, tt.elem_type.map(|d| (d.0 as u64).wrapping_add(1)).unwrap_or(0)]);
            if let Some(sh) = &tt.shape {
                for d in &sh.dim {
                    *h = mix(&[*h, d.dim_value.map(|v| v as u64 ^ 0x55).unwrap_or(3)]);
                    s(h, &d.dim_param);
                }
            }
        }
        if let Some(sq) = &t.sequence {
            *h = mix(&[*h, 12]);
            if let Some(e) = &sq.elem_type {
                typ(h, e, depth + 1);
            }
        }
    }
    fn vinfo(h: &mut u64, v: &onnx::ValueInfoProto) {
        s(h, &v.name);
        if let Some(t) = &v.r#type {
            typ(h, t, 0);
        }
    }
    fn graph(h: &mut u64, g: &onnx::GraphProto, depth: usize) {
        if depth > 64 {
            return;
        }
        for n in &g.node {
            s(h, &n.domain);
            s(h, &n.name);
            s(h, &n.op_type);
            for i in &n.input {
                *h = mix(&[*h, 2, fnv64(i.as_bytes())]);
            }
            for i in &n.output {
                *h = mix(&[*h, 3, fnv64(i.as_bytes())]);
            }
            for a in &n.attribute {
                s(h, &a.name);
                s(h, &a.s);
                *h = mix(&[*h, a.f.map(|f| (f.to_bits() as u64).wrapping_add(1)).unwrap_or(0), a.i.map(|v| v as u64 ^ 0x77).unwrap_or(5), a.r#type.map(|t| (t.0 as u64).wrapping_add(1)).unwrap_or(0)]);
                for f in &a.floats {
                    *h = mix(&[*h, f.to_bits() as u64]);
                }
                for f in &a.ints {
                    *h = mix(&[*h, *f as u64]);
                }
                for f in &a.strings {
                    *h = mix(&[*h, fnv64(f.as_bytes())]);
                }
                if let Some(t) = &a.t {
                    tensor(h, t);
                }
                if let Some(g2) = &a.g {
                    *h = mix(&[*h, 99]);
                    graph(h, g2, depth + 1);
                }
            }
        }
        for t in &g.initializer {
            tensor(h, t);
        }
        for v in &g.input {
            vinfo(h, v);
        }
        *h = mix(&[*h, 7]);
        for v in &g.output {
            vinfo(h, v);
        }
        *h = mix(&[*h, 8]);
        for v in &g.value_info {
            vinfo(h, v);
        }
    }
    let mut h = 17u64;
    h = mix(&[h, m.ir_version.map(|v| v as u64 ^ 0x99).unwrap_or(1)]);
    s(&mut h, &m.producer_name);
    s(&mut h, &m.producer_version);
    for o in &m.opset_import {
        s(&mut h, &o.domain);
        h = mix(&[h, o.version.map(|v| v as u64 ^ 0x31).unwrap_or(2)]);
    }
    for e in &m.metadata_props {
        s(&mut h, &e.key);
        s(&mut h, &e.value);
    }
    if let Some(g) = &m.graph {
        graph(&mut h, g, 0);
    }
    h
}

/// Dropping a decoded message recurses as deeply as the message nests; keep
/// that out of the verdict by leaking very deep results (the property is about
/// decoding).
fn finish(r: Result<ModelProto, rten_onnx::protobuf::ProtobufError>, deep: bool) -> Result<u64, String> {
    match r {
        Ok(m) => {
            if deep {
                std::mem::forget(m);
                Ok(1)
            } else {
                Ok(fingerprint(&m))
            }
        }
        Err(e) => Err(format!("{:?}", e.kind()).split('(').next().unwrap_or("?").to_string()),
    }
}

/// `AsRef<[u8]>` that counts how often the cursor asks for the buffer and
/// starves it once the budget is gone: a deterministic non-termination
/// detector for the in-memory path that needs no hook.
struct CountingBuf {
    data: Rc<Vec<u8>>,
    calls: Rc<Cell<u64>>,
    budget: u64,
}

impl AsRef<[u8]> for CountingBuf {
    fn as_ref(&self) -> &[u8] {
        let c = self.calls.get() + 1;
        self.calls.set(c);
        if c > self.budget {
            &[]
        } else {
            &self.data
        }
    }
}

fn msg_class(m: &str) -> String {
    let mut out = String::new();
    for c in m.chars() {
        if out.len() >= 40 {
            break;
        }
        if c.is_ascii_alphabetic() {
            out.push(c.to_ascii_lowercase());
        } else if !out.ends_with('-') && !out.is_empty() {
            out.push('-');
        }
    }
    out.trim_end_matches('-').to_string()
}

impl Engine for PbEngine {
    type Case = PbCase;

    fn name() -> &'static str {
        "sim_pb"
    }
    fn engine_id() -> u64 {
        38
    }
    fn properties() -> Vec<&'static str> {
        vec!["C38"]
    }

    fn new(_property: &str, tier: Tier, _verif_seed: u64) -> Self {
        let mut corpus = Vec::new();
        for (name, m) in onnxenc::corpus::all() {
            let pb = m.encode_pb();
            corpus.push(CorpusFile { name: name.to_string(), bytes: pb.buf, marks: pb.marks });
        }
        if tier == Tier::Thorough {
            if let Ok(b) = std::fs::read("/repo/rten-onnx/test-data/mnist.onnx") {
                corpus.push(CorpusFile { name: "repo:mnist.onnx".into(), bytes: b, marks: vec![] });
            }
        }
        let v = |x: u64| onnxenc::varint(x);
        let mut specials: Vec<(String, Vec<u8>)> = Vec::new();
        specials.push(("empty".into(), vec![]));
        specials.push(("unknown-field-len-2^64-11".into(), [vec![0x7a], v(0u64.wrapping_sub(11))].concat()));
        specials.push(("ten-continuation-bytes-then-data".into(), [vec![0xff; 10], vec![0x01, 0x08, 0x01]].concat()));
        specials.push(("eleven-continuation-bytes".into(), vec![0xff; 11]));
        specials.push(("varint-overlong-tag".into(), vec![0x88, 0x80, 0x80, 0x80, 0x80, 0x80, 0x80, 0x80, 0x80, 0x80, 0x01]));
        specials.push(("producer-name-len-2^63".into(), [vec![0x12], v(1 << 63), b"abc".to_vec()].concat()));
        specials.push(("producer-name-len-max".into(), [vec![0x12], v(u64::MAX), b"abc".to_vec()].concat()));
        specials.push(("producer-name-len-1TiB".into(), [vec![0x12], v(1 << 40), b"abc".to_vec()].concat()));
        specials.push(("graph-len-max".into(), [vec![0x08, 0x08, 0x3a], v(u64::MAX), vec![0x0a, 0x00]].concat()));
        specials.push(("graph-len-2^63-then-skip".into(), [vec![0x08, 0x08, 0x3a], v(1 << 63), vec![0x7a], v((1 << 63) - 3)].concat()));
        specials.push(("raw-data-len-2^62".into(), {
            // graph { initializer { raw_data len=2^62 } }
            let t = [vec![0x4a], v(1 << 62)].concat();
            let g = [vec![0x2a], v(t.len() as u64), t].concat();
            [vec![0x08, 0x08, 0x3a], v(g.len() as u64), g].concat()
        }));
        specials.push(("packed-floats-len-max".into(), {
            let t = [vec![0x22], v(u64::MAX - 3)].concat();
            let g = [vec![0x2a], v(t.len() as u64), t].concat();
            [vec![0x3a], v(g.len() as u64), g].concat()
        }));
        specials.push(("skip-negative-back-to-start".into(), [vec![0x08, 0x08, 0x7a], v(0u64.wrapping_sub(13))].concat()));
        specials.push(("fixed64-at-eof".into(), vec![0x09, 1, 2, 3]));
        specials.push(("fixed32-at-eof".into(), vec![0x0d, 1, 2]));
        specials.push(("invalid-wire-type-6".into(), vec![0x0e, 0x00]));
        specials.push(("groups".into(), vec![0x0b, 0x0c, 0x08, 0x08]));
        specials.push(("sequence-type-nesting".into(), {
            // graph.input[0].type.sequence.elem_type.sequence ... 2000 levels
            let mut inner: Vec<u8> = Vec::new();
            let mut sizes = Vec::new();
            let mut cur = 0u64;
            for _ in 0..2000 {
                let seq = 1 + v(cur).len() as u64 + cur; // TypeProtoSequence{elem_type}
                let tp = 1 + v(seq).len() as u64 + seq; // TypeProto{sequence}
                sizes.push((cur, seq));
                cur = tp;
            }
            for (tp_inner, seq) in sizes.iter().rev() {
                inner.extend([0x22]);
                inner.extend(v(*seq));
                inner.extend([0x0a]);
                inner.extend(v(*tp_inner));
            }
            let vinfo = [vec![0x12], v(inner.len() as u64), inner].concat();
            let g = [vec![0x5a], v(vinfo.len() as u64), vinfo].concat();
            [vec![0x08, 0x08, 0x3a], v(g.len() as u64), g].concat()
        }));

        let mut sections = Vec::new();
        let mut at = 0u64;
        let mut push = |s: Section, n: u64, at: &mut u64| {
            if n > 0 {
                sections.push((s, *at, n));
                *at += n;
            }
        };
        push(Section::Special, (specials.len() * IO_ROT) as u64, &mut at);
        for (i, f) in corpus.iter().enumerate() {
            let big = f.bytes.len() > 20_000;
            if !big {
                push(Section::Truncate { file: i }, f.bytes.len() as u64 + 1, &mut at);
            } else {
                push(Section::Truncate { file: i }, 4096, &mut at);
            }
            push(Section::MarkLie { file: i }, (f.marks.len() * N_EXTREMES) as u64, &mut at);
            let stride = match (tier, big) {
                (_, true) => 97,
                (Tier::Quick, false) if f.bytes.len() > 2000 => 5,
                _ => 1,
            };
            push(Section::ByteFault { file: i, stride }, (f.bytes.len().div_ceil(stride) * 4) as u64, &mut at);
        }
        let nest_depths = vec![1, 10, 100, 1000, 10_000, 100_000, 1_000_000];
        push(Section::Nested, (nest_depths.len() * 2) as u64, &mut at);
        let mixes = match tier {
            Tier::Quick => 5_000_000,
            Tier::Thorough => 250_000_000,
        };
        push(Section::Mix, mixes, &mut at);
        PbEngine { corpus, specials, sections, total: at, nest_depths }
    }

    fn info(&self) -> EngineInfo {
        EngineInfo {
            level: "fault_enumeration",
            rule: "Enumerated: every truncation offset, every tag/length/varint position x 18 extreme values (2^31..2^64-k, wrap-to-self), every byte x {flip bit0, 00, FF, 80} over a corpus of harness-encoded ONNX messages (all field kinds), hand-built adversarial fragments x 6 device plans, nesting depths 1..10^6; then seeded multi-fault mixes (stored-byte faults + device faults: short reads, EINTR, I/O error at offset, early EOF, BufReader capacity 1..8192). Each mutated message is decoded through the in-memory path (parse_buf and a counting buffer) and through ReadPos<BufReader<SimFile>> (the composition parse_file builds), in a build with overflow checks and one without. Non-trivial = at least one stored-byte or device fault actually applied/fired; distinct = hash of the explicit case.".into(),
            real_components: vec!["rten_onnx::protobuf (varint, ValueReader, ReadPos, LimitReader, Fields/Field)".into(), "rten_onnx::onnx message decoders".into(), "std::io::BufReader, Cursor".into()],
            stub_components: vec!["std::fs::File -> simcore::devices::SimFile (Read+Seek with fault plan and operation budget)".into()],
            assumptions: vec![
                "parse_file is ValueReader::new(ReadPos::new(BufReader::new(file))); the simulator builds the same composition over SimFile".into(),
                "a decode is 'linear' if the device serves <= 4*len + 2*bufcap + 64 bytes in <= 16*len + 1024 operations (buffer path: <= 16*len + 1024 buffer fetches)".into(),
                "stack overflow / abort / no progress for 20 s in the worker process are attributed to the case in flight".into(),
            ],
            technique: "deterministic simulation: seeded + enumerated storage and device fault injection over a simulated file, budgeted termination oracle, reference structural walker".into(),
            hang_secs: 20,
            expected_probes: vec![
                "fault:truncate".into(), "fault:len_lie".into(), "fault:byte".into(), "fault:short_read".into(), "fault:eintr".into(),
                "fault:io_error".into(), "fault:device_eof".into(), "probe:decode_ok".into(), "probe:decode_err".into(),
                "probe:far_seek".into(), "probe:walker_overlong".into(), "probe:nested>=1000".into(),
            ],
        }
    }

    fn num_cases(&self) -> u64 {
        self.total
    }

    fn make_case(&self, index: u64, seed: u64) -> PbCase {
        let (sec, first, _n) = *self.sections.iter().rev().find(|(_, first, _)| *first <= index).expect("section");
        let k = (index - first) as usize;
        match sec {
            Section::Special => {
                let (name, bytes) = &self.specials[k / IO_ROT];
                let (io, bufcap) = io_rotation(k % IO_ROT, bytes.len());
                PbCase { base: Base::Bytes(hex(bytes)), faults: vec![], io, bufcap, note: format!("special:{name}") }
            }
            Section::Truncate { file } => {
                let f = &self.corpus[file];
                let off = if f.bytes.len() > 20_000 { (k * f.bytes.len()) / 4096 } else { k };
                let (mut io, bufcap) = io_rotation(k, f.bytes.len());
                let mut faults = vec![];
                // alternate between a stored truncation and a device that ends early
                if k % 2 == 0 {
                    faults.push(ByteFault::Truncate(off));
                } else {
                    io.eof_at = Some(off as u64);
                }
                PbCase { base: Base::Corpus(file), faults, io, bufcap, note: format!("truncate:{}@{}", f.name, off) }
            }
            Section::MarkLie { file } => {
                let f = &self.corpus[file];
                let m = &f.marks[k / N_EXTREMES];
                let e = k % N_EXTREMES;
                let remaining = (f.bytes.len() - m.pos - m.len) as u64;
                let val = extreme_value(e, m.pos, m.len, remaining, m.value);
                let (io, bufcap) = io_rotation(k / N_EXTREMES + e, f.bytes.len());
                PbCase {
                    base: Base::Corpus(file),
                    faults: vec![ByteFault::Replace { pos: m.pos, len: m.len, bytes: onnxenc::varint(val) }],
                    io,
                    bufcap,
                    note: format!("lie:{}:{:?}@{}={:#x}", f.name, m.kind, m.pos, val),
                }
            }
            Section::ByteFault { file, stride } => {
                let f = &self.corpus[file];
                let pos = (k / 4) * stride;
                let fault = match k % 4 {
                    0 => ByteFault::FlipBit { pos, bit: 0 },
                    1 => ByteFault::SetByte { pos, val: 0x00 },
                    2 => ByteFault::SetByte { pos, val: 0xff },
                    _ => ByteFault::SetByte { pos, val: 0x80 },
                };
                let (io, bufcap) = io_rotation(k / 4, f.bytes.len());
                PbCase { base: Base::Corpus(file), faults: vec![fault], io, bufcap, note: format!("byte:{}@{}", f.name, pos) }
            }
            Section::Nested => {
                let d = self.nest_depths[k / 2];
                let (io, bufcap) = if k % 2 == 0 { (ReadPlan::default(), 8192) } else { (ReadPlan { max_read: 5, ..Default::default() }, 8) };
                PbCase { base: Base::Nested(d), faults: vec![], io, bufcap, note: format!("nested:{d}") }
            }
            Section::Mix => {
                let mut r = Rng::new(seed);
                // skip the very large files most of the time
                let mut file = r.usize_below(self.corpus.len());
                if self.corpus[file].bytes.len() > 20_000 && !r.chance(1, 50) {
                    file = r.usize_below(self.corpus.len().min(8));
                }
                let f = &self.corpus[file];
                let len = f.bytes.len();
                let mut faults = Vec::new();
                let nf = r.urange(0, 3);
                for _ in 0..nf {
                    let pos = r.usize_below(len.max(1));
                    let fault = match r.below(8) {
                        0 => ByteFault::Truncate(pos),
                        1 => ByteFault::FlipBit { pos, bit: r.below(8) as u8 },
                        2 => ByteFault::SetByte { pos, val: *r.pick(&[0x00, 0xff, 0x7f, 0x80, 0x0a, 0x12]) },
                        3 => ByteFault::ZeroRange { start: pos & !511, len: 512 },
                        4 => ByteFault::DupBlock { start: pos, len: r.urange(1, 64), at: r.usize_below(len.max(1)) },
                        5 if !f.marks.is_empty() => {
                            let m = r.pick(&f.marks);
                            let remaining = (len - m.pos - m.len) as u64;
                            let val = extreme_value(r.usize_below(N_EXTREMES), m.pos, m.len, remaining, m.value);
                            ByteFault::Replace { pos: m.pos, len: m.len, bytes: onnxenc::varint(val) }
                        }
                        6 if !f.marks.is_empty() => {
                            // a length that is off by a little
                            let lens: Vec<&onnxenc::Mark> = f.marks.iter().filter(|m| m.kind == MarkKind::Len).collect();
                            let m = r.pick(&lens);
                            let delta = r.range(-3, 3);
                            ByteFault::Replace { pos: m.pos, len: m.len, bytes: onnxenc::varint((m.value as i64 + delta).max(0) as u64) }
                        }
                        _ => ByteFault::Insert { pos, bytes: (0..r.urange(1, 12)).map(|_| r.below(256) as u8).collect() },
                    };
                    faults.push(fault);
                }
                let mut io = ReadPlan { max_read: *r.pick(&[0usize, 0, 1, 2, 7, 4096]), ..Default::default() };
                if r.chance(1, 4) {
                    let n = r.urange(1, 3);
                    for _ in 0..n {
                        io.interrupt_calls.push(r.below(12));
                    }
                    io.interrupt_calls.sort();
                    io.interrupt_calls.dedup();
                }
                if r.chance(1, 6) {
                    io.error_at_offset = Some(r.below(len as u64 + 1));
                }
                if r.chance(1, 10) {
                    io.error_at_call = Some(r.below(20));
                }
                if r.chance(1, 8) {
                    io.eof_at = Some(r.below(len as u64 + 1));
                }
                if r.chance(1, 16) {
                    io.seek_error_at_call = Some(r.below(4));
                }
                let bufcap = *r.pick(&[8192usize, 8192, 1, 2, 16, 64, 512]);
                PbCase { base: Base::Corpus(file), faults, io, bufcap, note: format!("mix:{}", f.name) }
            }
        }
    }

    fn run_case(&self, case: &PbCase, ctx: &mut Ctx) -> Outcome {
        let base = self.base_bytes(&case.base);
        let bytes = Rc::new(apply_faults(&base, &case.faults));
        let len = bytes.len() as u64;
        let deep = matches!(case.base, Base::Nested(d) if d > 500) || case.note.contains("nesting");
        let mut nontrivial = !case.faults.is_empty() && *bytes != base;
        for f in &case.faults {
            match f {
                ByteFault::Truncate(_) => ctx.count("fault:truncate"),
                ByteFault::Replace { .. } => ctx.count("fault:len_lie"),
                ByteFault::FlipBit { .. } | ByteFault::SetByte { .. } => ctx.count("fault:byte"),
                ByteFault::ZeroRange { .. } => ctx.count("fault:zero_sector"),
                ByteFault::DupBlock { .. } => ctx.count("fault:dup_block"),
                ByteFault::Insert { .. } => ctx.count("fault:insert"),
            }
        }
        if let Base::Nested(d) = case.base {
            ctx.count("fault:nesting");
            if d >= 1000 {
                ctx.count("probe:nested>=1000");
            }
            nontrivial = true;
        }
        if case.note.starts_with("special:") {
            nontrivial = true;
        }
        let mut trace: Vec<u64> = Vec::new();
        let mut steps = 0u64;
        let mut violation: Option<Violation> = None;
        let mut set = |v: Violation| {
            if violation.is_none() {
                violation = Some(v);
            }
        };

        // reference structural walker (skipped for the deep-nesting cases)
        let walk = if deep { walker::Walk::Unknown } else { walker::walk_model(&bytes) };
        if walk == walker::Walk::Overlong {
            ctx.count("probe:walker_overlong");
        }

        // (b) in-memory path with a counting buffer
        let calls = Rc::new(Cell::new(0u64));
        let budget_calls = 16 * len + 1024;
        let cb = CountingBuf { data: bytes.clone(), calls: calls.clone(), budget: budget_calls };
        let rb = catch(|| ModelProto::decode(ValueReader::from_buf(cb))).map(|r| finish(r, deep));
        steps += calls.get();
        let mut buf_result: Option<Result<u64, String>> = None;
        match rb {
            Err(p) => set(Violation::new(
                format!("C38/panic/buf/{}:{}", panic_site(&p), msg_class(&p.message)),
                format!("decode over a buffer panicked: {} at {} [{}]", p.message, p.location, case.note),
            )),
            Ok(r) => {
                if calls.get() > budget_calls {
                    set(Violation::new(
                        "C38/budget-exceeded/buf",
                        format!("decode over a {len}-byte buffer fetched the buffer more than {budget_calls} times: not linear / not terminating [{}]", case.note),
                    ));
                } else {
                    if walk == walker::Walk::Overlong && r.is_ok() {
                        set(Violation::new(
                            "C38/overlong-length-accepted/buf",
                            format!("a field length larger than the remaining input was accepted (decode returned Ok) [{}]", case.note),
                        ));
                    }
                    if walk == walker::Walk::WellFormed && r.is_err() {
                        ctx.count("probe:walker_wellformed_but_err");
                    }
                    buf_result = Some(r);
                }
            }
        }
        trace.push(match &buf_result {
            Some(Ok(h)) => *h,
            Some(Err(e)) => fnv64(e.as_bytes()),
            None => 0,
        });

        // (a) the public entry point, only when the counting run was clean
        if let Some(expected) = &buf_result {
            let ra = catch(|| ModelProto::parse_buf(&bytes)).map(|r| finish(r, deep));
            match ra {
                Err(p) => set(Violation::new(
                    format!("C38/panic/parse_buf/{}:{}", panic_site(&p), msg_class(&p.message)),
                    format!("parse_buf panicked: {} at {} [{}]", p.message, p.location, case.note),
                )),
                Ok(r) => {
                    if r.is_ok() != expected.is_ok() || (r.is_ok() && r != *expected) {
                        set(Violation::new("C38/buf-paths-disagree", format!("parse_buf and decode(from_buf) disagree: {:?} vs {:?} [{}]", r, expected, case.note)));
                    }
                }
            }
            match expected {
                Ok(_) => ctx.count("probe:decode_ok"),
                Err(_) => ctx.count("probe:decode_err"),
            }
        }

        // A decode that does not terminate on the buffer path would spin inside the
        // varint loop on the file path too, without touching the device (the
        // BufReader already holds the bytes): nothing more to learn, stop here.
        if buf_result.is_none() {
            drop(set);
            return Outcome { violation, nontrivial, steps, trace_hash: mix(&trace), executions: 1, ..Default::default() };
        }

        // (c) the file path over the simulated device
        let bufcap = case.bufcap.max(1);
        let (file, stats) = SimFile::new(bytes.clone(), case.io.clone());
        let file = file.with_budget(16 * len + 1024, 4 * len + 2 * bufcap as u64 + 64);
        let rc = catch(|| ModelProto::decode(ValueReader::new(ReadPos::new(BufReader::with_capacity(bufcap, file))))).map(|r| finish(r, deep));
        let st = stats.borrow().clone();
        steps += st.ops();
        ctx.add("fault:short_read", st.short_reads);
        ctx.add("fault:eintr", st.interrupts_fired);
        ctx.add("fault:io_error", st.errors_fired);
        ctx.add("fault:device_eof", st.eof_fired);
        // (creating the reader costs up to three seeks, one of them backwards)
        if st.seeks > 3 {
            ctx.count("probe:far_seek");
        }
        if st.backward_seeks > 1 {
            ctx.count("probe:backward_seek_during_decode");
        }
        if st.short_reads + st.interrupts_fired + st.errors_fired + st.eof_fired > 0 {
            nontrivial = true;
        }
        match rc {
            Err(p) => set(Violation::new(
                format!("C38/panic/file/{}:{}", panic_site(&p), msg_class(&p.message)),
                format!("decode over ReadPos<BufReader<SimFile>> panicked: {} at {} [{}]", p.message, p.location, case.note),
            )),
            Ok(r) => {
                trace.push(match &r {
                    Ok(h) => *h,
                    Err(e) => fnv64(e.as_bytes()),
                });
                if st.budget_exceeded {
                    set(Violation::new(
                        "C38/budget-exceeded/file",
                        format!(
                            "decode of a {len}-byte file needed {} reads, {} seeks ({} backwards), {} bytes served: not linear / not terminating [{}]",
                            st.read_calls, st.seeks, st.backward_seeks, st.bytes_served, case.note
                        ),
                    ));
                } else if let Some(expected) = &buf_result {
                    // A device that ends early *is* a shorter file: the reference is
                    // the fault-free decode of that prefix.
                    let (reference, ref_walk) = match case.io.eof_at {
                        Some(e) if (e as usize) < bytes.len() => {
                            let cut = e as usize;
                            let w = if deep { walker::Walk::Unknown } else { walker::walk_model(&bytes[..cut]) };
                            (catch(|| ModelProto::parse_buf(&bytes[..cut])).map(|r| finish(r, deep)).ok(), w)
                        }
                        _ => (Some(expected.clone()), walk),
                    };
                    let hard = st.errors_fired + st.interrupts_fired > 0;
                    if let Some(reference) = reference {
                        if !hard {
                            // only short reads: decoding is a function of the byte string
                            if r.is_ok() != reference.is_ok() || (r.is_ok() && r != reference) {
                                set(Violation::new(
                                    "C38/file-differs-from-buffer",
                                    format!("file path (short reads only) returned {:?}, buffer path {:?} on the same bytes [{}]", r, reference, case.note),
                                ));
                            }
                        } else if let Ok(h) = &r {
                            // device faults: an error or the exact value, never a different message
                            if reference != Ok(*h) {
                                set(Violation::new(
                                    "C38/wrong-message-under-io-fault",
                                    format!("file path returned a message ({h:#x}) that differs from the fault-free decode ({reference:?}) after device faults {:?} [{}]", case.io, case.note),
                                ));
                            }
                        }
                    }
                    if ref_walk == walker::Walk::Overlong && r.is_ok() {
                        set(Violation::new(
                            "C38/overlong-length-accepted/file",
                            format!("a field length larger than the remaining input was accepted by the file path [{}]", case.note),
                        ));
                    }
                }
            }
        }
        Outcome { violation, nontrivial, steps, trace_hash: mix(&trace), executions: 3, ..Default::default() }
    }

    fn shrink(&self, case: &PbCase) -> Vec<PbCase> {
        let mut out = Vec::new();
        // device plan first
        if case.io != ReadPlan::default() {
            out.push(PbCase { io: ReadPlan::default(), ..case.clone() });
            let mut c = case.clone();
            if !c.io.interrupt_calls.is_empty() {
                c.io.interrupt_calls.clear();
                out.push(c.clone());
            }
            for f in 0..4 {
                let mut c = case.clone();
                match f {
                    0 => c.io.error_at_offset = None,
                    1 => c.io.error_at_call = None,
                    2 => c.io.eof_at = None,
                    _ => c.io.seek_error_at_call = None,
                }
                if c.io != case.io {
                    out.push(c);
                }
            }
            if case.io.max_read != 0 {
                let mut c = case.clone();
                c.io.max_read = 0;
                out.push(c);
            }
        }
        if case.bufcap != 8192 {
            out.push(PbCase { bufcap: 8192, ..case.clone() });
        }
        match &case.base {
            Base::Nested(d) => {
                for nd in [d / 2, d * 3 / 4, d * 9 / 10, d.saturating_sub(1)] {
                    if nd < *d && nd > 0 {
                        out.push(PbCase { base: Base::Nested(nd), note: format!("nested:{nd}"), ..case.clone() });
                    }
                }
            }
            Base::Corpus(_) => {
                // drop faults one at a time, then materialise
                for i in 0..case.faults.len() {
                    let mut c = case.clone();
                    c.faults.remove(i);
                    out.push(c);
                }
                let bytes = apply_faults(&self.base_bytes(&case.base), &case.faults);
                out.push(PbCase { base: Base::Bytes(hex(&bytes)), faults: vec![], note: format!("{} (materialised)", case.note), ..case.clone() });
            }
            Base::Bytes(h) => {
                let bytes = apply_faults(&unhex(h), &case.faults);
                if !case.faults.is_empty() {
                    out.push(PbCase { base: Base::Bytes(hex(&bytes)), faults: vec![], ..case.clone() });
                    return out;
                }
                let n = bytes.len();
                let mut chunk = n / 2;
                while chunk >= 1 {
                    let mut start = 0;
                    while start < n {
                        let end = (start + chunk).min(n);
                        let mut b = bytes[..start].to_vec();
                        b.extend_from_slice(&bytes[end..]);
                        out.push(PbCase { base: Base::Bytes(hex(&b)), ..case.clone() });
                        start += chunk;
                        if n > 4096 && out.len() >= 96 {
                            return out; // large inputs: coarsest candidates only; the minimiser asks again
                        }
                    }
                    if chunk == 1 {
                        break;
                    }
                    chunk /= 2;
                }
                if n <= 64 {
                    for i in 0..n {
                        for v in [0u8, 1] {
                            if bytes[i] > v {
                                let mut b = bytes.clone();
                                b[i] = v;
                                out.push(PbCase { base: Base::Bytes(hex(&b)), ..case.clone() });
                            }
                        }
                    }
                }
            }
        }
        out
    }

    fn sample(&self, case: &PbCase) -> serde_json::Value {
        let bytes = apply_faults(&self.base_bytes(&case.base), &case.faults);
        serde_json::json!({
            "note": case.note,
            "base": match &case.base { Base::Corpus(i) => format!("corpus:{}", self.corpus[*i].name), Base::Bytes(_) => "inline bytes".into(), Base::Nested(d) => format!("nested depth {d}") },
            "faults": case.faults,
            "device_plan": case.io,
            "bufreader_capacity": case.bufcap,
            "mutated_len": bytes.len(),
            "mutated_head_hex": hex(&bytes[..bytes.len().min(48)]),
        })
    }
}

fn main() {
    driver::main::<PbEngine>();
}
