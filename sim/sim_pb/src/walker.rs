//! Reference model for the clause "field lengths larger than the remaining
//! input are errors". A schema-directed structural walk that visits fields in
//! the decoder's order and answers:
//!
//! * `Overlong`   – the first irregularity in decoding order is a
//!                  length-delimited field whose declared length exceeds the
//!                  bytes remaining in the whole input: decoding must fail;
//! * `WellFormed` – no irregularity at all;
//! * `Unknown`    – some other irregularity comes first (the decoder is then
//!                  merely required to return *something* without panicking).
//!
//! The walker is deliberately conservative: whenever the decoder's behaviour
//! is not pinned down by the statement it answers `Unknown`.

#[derive(Clone, Copy, Debug, PartialEq, Eq)]
pub enum Walk {
    WellFormed,
    Overlong,
    Unknown,
}

#[derive(Clone, Copy, PartialEq, Eq)]
enum M {
    Model,
    Graph,
    Node,
    Attr,
    Tensor,
    Dimension,
    Sse,
    OpSet,
    TensorShape,
    TypeTensor,
    TypeSeq,
    Type,
    ValueInfo,
}

#[derive(Clone, Copy)]
enum K {
    Varint,
    Fixed32,
    Str,
    Bytes,
    Msg(M),
    RepVarint,
    RepF32,
    RepF64,
    Skip,
}

fn schema(m: M, field: u64) -> K {
    use K::*;
    match (m, field) {
        (M::Model, 1) => Varint,
        (M::Model, 2) | (M::Model, 3) => Str,
        (M::Model, 7) => Msg(M::Graph),
        (M::Model, 8) => Msg(M::OpSet),
        (M::Model, 14) => Msg(M::Sse),
        (M::Graph, 1) => Msg(M::Node),
        (M::Graph, 5) => Msg(M::Tensor),
        (M::Graph, 11) | (M::Graph, 12) | (M::Graph, 13) => Msg(M::ValueInfo),
        (M::Node, 1) | (M::Node, 2) | (M::Node, 3) | (M::Node, 4) | (M::Node, 7) => Str,
        (M::Node, 5) => Msg(M::Attr),
        (M::Attr, 1) | (M::Attr, 4) | (M::Attr, 9) => Str,
        (M::Attr, 2) | (M::Attr, 7) => Fixed32,
        (M::Attr, 3) | (M::Attr, 8) | (M::Attr, 20) => Varint,
        (M::Attr, 5) => Msg(M::Tensor),
        (M::Attr, 6) => Msg(M::Graph),
        (M::Tensor, 1) | (M::Tensor, 2) | (M::Tensor, 14) => Varint,
        (M::Tensor, 4) => RepF32,
        (M::Tensor, 5) | (M::Tensor, 7) => RepVarint,
        (M::Tensor, 8) => Str,
        (M::Tensor, 9) => Bytes,
        (M::Tensor, 10) => RepF64,
        (M::Tensor, 13) => Msg(M::Sse),
        (M::Dimension, 1) => Varint,
        (M::Dimension, 2) => Str,
        (M::Sse, 1) | (M::Sse, 2) => Str,
        (M::OpSet, 1) => Str,
        (M::OpSet, 2) => Varint,
        (M::TensorShape, 1) => Msg(M::Dimension),
        (M::TypeTensor, 1) => Varint,
        (M::TypeTensor, 2) => Msg(M::TensorShape),
        (M::TypeSeq, 1) => Msg(M::Type),
        (M::Type, 1) => Msg(M::TypeTensor),
        (M::Type, 4) => Msg(M::TypeSeq),
        (M::ValueInfo, 1) => Str,
        (M::ValueInfo, 2) => Msg(M::Type),
        _ => Skip,
    }
}

/// Read a varint that lies completely inside `[pos, end)`.
fn varint(b: &[u8], pos: usize, end: usize) -> Option<(u64, usize)> {
    let mut v: u64 = 0;
    for i in 0..10 {
        let p = pos + i;
        if p >= end {
            return None;
        }
        let byte = b[p];
        if i == 9 && byte > 1 {
            return None;
        }
        v |= ((byte & 0x7f) as u64) << (7 * i);
        if byte < 0x80 {
            return Some((v, p + 1));
        }
    }
    None
}

fn walk(b: &[u8], m: M, mut pos: usize, end: usize, depth: usize) -> Walk {
    if depth > 100 {
        return Walk::Unknown;
    }
    let total = b.len();
    while pos < end {
        let Some((tag, p)) = varint(b, pos, end) else { return Walk::Unknown };
        pos = p;
        let field = tag >> 3;
        let wire = tag & 7;
        let kind = schema(m, field);
        match wire {
            0 => {
                let Some((_, p)) = varint(b, pos, end) else { return Walk::Unknown };
                pos = p;
                match kind {
                    K::Varint | K::RepVarint | K::Skip => {}
                    _ => return Walk::Unknown,
                }
            }
            1 => {
                if pos + 8 > end {
                    return Walk::Unknown;
                }
                pos += 8;
                match kind {
                    K::RepF64 | K::Skip => {}
                    _ => return Walk::Unknown,
                }
            }
            5 => {
                if pos + 4 > end {
                    return Walk::Unknown;
                }
                pos += 4;
                match kind {
                    K::Fixed32 | K::RepF32 | K::Skip => {}
                    _ => return Walk::Unknown,
                }
            }
            3 | 4 => match kind {
                K::Skip => {}
                _ => return Walk::Unknown,
            },
            2 => {
                let Some((len, p)) = varint(b, pos, end) else { return Walk::Unknown };
                pos = p;
                // The clause under test: a declared length beyond the end of the input.
                if len > (total - pos) as u64 {
                    return Walk::Overlong;
                }
                let len = len as usize;
                if pos + len > end {
                    // exceeds the parent message but not the input: not covered by the statement
                    return Walk::Unknown;
                }
                let fend = pos + len;
                match kind {
                    K::Skip | K::Bytes => {}
                    K::Str => {
                        if std::str::from_utf8(&b[pos..fend]).is_err() {
                            return Walk::Unknown;
                        }
                    }
                    K::Msg(sub) => match walk(b, sub, pos, fend, depth + 1) {
                        Walk::WellFormed => {}
                        other => return other,
                    },
                    K::RepVarint => {
                        let mut q = pos;
                        while q < fend {
                            let Some((_, p)) = varint(b, q, fend) else { return Walk::Unknown };
                            q = p;
                        }
                    }
                    K::RepF32 => {
                        if len % 4 != 0 {
                            return Walk::Unknown;
                        }
                    }
                    K::RepF64 => {
                        if len % 8 != 0 {
                            return Walk::Unknown;
                        }
                    }
                    K::Varint | K::Fixed32 => return Walk::Unknown,
                }
                pos = fend;
            }
            _ => return Walk::Unknown,
        }
    }
    Walk::WellFormed
}

pub fn walk_model(bytes: &[u8]) -> Walk {
    walk(bytes, M::Model, 0, bytes.len(), 0)
}
