//! Seeded scenario generator shared by the Shuttle and Miri back ends.

use crate::scenario::{PoolOp, Release, Scenario, TYPE_NAMES};
use simcore::rng::Rng;

/// `small`: fewer and shorter threads (Miri is ~1000x slower).
pub fn scenario(r: &mut Rng, small: bool) -> Scenario {
    let min_size = *r.pick(&[0usize, 1, 16, 128]);
    let nthreads = if small { 2 } else { r.urange(2, 3) };
    // a few distinct buffer sizes so that returned buffers are reused across threads and types
    let sizes: Vec<usize> = (0..3).map(|_| *r.pick(&[8usize, 16, 24, 32, 48, 64, 128, 160, 256])).collect();
    let mut threads = Vec::new();
    for _ in 0..nthreads {
        let nops = if small { r.urange(2, 4) } else { r.urange(3, 6) };
        let mut ops = Vec::new();
        for _ in 0..nops {
            let ty = r.usize_below(TYPE_NAMES.len());
            // (the zero-sized type is given a nominal size of 1 so that capacities stay small)
            let esize = [1usize, 2, 4, 4, 8, 3, 16, 16, 4, 4, 1][ty];
            let bytes = *r.pick(&sizes);
            let cap = match r.below(8) {
                0 => 0,
                1 => (min_size / esize).saturating_sub(1),
                2 => min_size / esize + 1,
                3 => bytes / esize + 1,
                _ => (bytes / esize).max(1),
            };
            ops.push(PoolOp {
                ty,
                cap,
                hold: r.urange(0, 2),
                release: match r.below(10) {
                    0 => Release::Drop,
                    1 => Release::PoolRefTake,
                    2 | 3 => Release::PoolRefDrop,
                    4 => Release::TensorExtract,
                    _ => Release::Add,
                },
            });
        }
        threads.push(ops);
    }
    Scenario { min_size, threads }
}
