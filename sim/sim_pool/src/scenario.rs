//! The buffer-pool workload and its reference model, shared by the Shuttle
//! back end (controlled scheduler, `--cfg 'rten_verif="shuttle_pool"'`) and the
//! Miri back end (std threads under Miri's seeded scheduler).
//!
//! The pool is the *real* source file: `#[path = "/repo/src/buffer_pool.rs"]`.

use crate::buffer_pool::{AutoReturn, BufferPool, ExtractBuffer};
use rten_tensor::Tensor;
use serde::{Deserialize, Serialize};
use std::collections::BTreeMap;
use std::sync::{Arc, Mutex as StdMutex};

#[cfg(rten_verif = "shuttle_pool")]
mod rt {
    pub use shuttle::thread::{spawn, JoinHandle};
    pub fn pause() {
        // sleep(0) rather than yield_now: yield_now de-prioritises the task under PCT
        shuttle::thread::sleep(std::time::Duration::from_millis(0));
    }
}
#[cfg(not(rten_verif = "shuttle_pool"))]
mod rt {
    pub use std::thread::{spawn, JoinHandle};
    pub fn pause() {
        std::thread::yield_now();
    }
}

#[derive(Clone, Debug, Serialize, Deserialize, PartialEq)]
pub enum Release {
    /// `pool.add(vec)`
    Add,
    /// plain drop (the allocator frees it)
    Drop,
    /// `vec.auto_return(&pool)` dropped
    PoolRefDrop,
    /// `PoolRef::take` then dropped normally
    PoolRefTake,
    /// fill, wrap in a tensor, `extract_buffer`, `pool.add`
    TensorExtract,
}

#[derive(Clone, Debug, Serialize, Deserialize, PartialEq)]
pub struct PoolOp {
    /// Index into the element type table.
    pub ty: usize,
    pub cap: usize,
    /// Scheduling points while the buffer is held.
    pub hold: usize,
    pub release: Release,
}

#[derive(Clone, Debug, Serialize, Deserialize, PartialEq)]
pub struct Scenario {
    pub min_size: usize,
    pub threads: Vec<Vec<PoolOp>>,
}

pub const TYPE_NAMES: [&str; 11] = ["u8", "u16", "i32", "f32", "u64", "[u8;3]", "[u8;16]", "[u32;4]", "[u16;2]", "[u8;4]", "()"];

#[derive(Clone, Debug, PartialEq)]
enum State {
    Held(usize),
    Pooled,
}

#[derive(Clone, Debug)]
struct Rec {
    bytes: usize,
    align: usize,
    state: State,
}

/// Reference model: who owns which allocation.
#[derive(Default)]
pub struct PoolModel {
    bufs: BTreeMap<usize, Rec>,
    pub violations: Vec<(String, String)>,
    pub hits: u64,
    pub hits_other_type: u64,
    pub hits_larger: u64,
    pub allocs: u64,
    pub returned: u64,
    /// A zero-capacity Vec was involved: its dangling pointer cannot be tracked,
    /// so the pool-length cross-check is skipped for this execution.
    pub saw_zero_capacity: bool,
}

impl PoolModel {
    fn fail(&mut self, key: &str, detail: String) {
        if self.violations.is_empty() {
            self.violations.push((key.to_string(), detail));
        }
    }

    fn on_alloc(&mut self, who: usize, ty: usize, ptr: usize, cap_req: usize, cap_got: usize, size: usize, align: usize, min_size: usize) {
        self.allocs += 1;
        if cap_got < cap_req {
            self.fail("C23/capacity-too-small", format!("alloc::<{}>({cap_req}) returned capacity {cap_got}", TYPE_NAMES[ty]));
        }
        // a Vec of a sized type that claims more than isize::MAX bytes cannot describe an allocation
        // (this is what a buffer of a zero-sized type looks like when it is handed out as something else)
        if size > 0 && cap_got.checked_mul(size).map(|b| b > isize::MAX as usize).unwrap_or(true) {
            self.fail("C23/impossible-capacity", format!("alloc::<{}>({cap_req}) returned a Vec with capacity {cap_got:#x} at {ptr:#x}", TYPE_NAMES[ty]));
            return;
        }
        if size > 0 && ptr % align != 0 {
            self.fail("C23/misaligned", format!("alloc::<{}> returned a pointer not aligned to {align}", TYPE_NAMES[ty]));
        }
        let bytes = cap_got.saturating_mul(size);
        match self.bufs.get(&ptr).cloned() {
            Some(Rec { state: State::Held(other), .. }) => {
                self.fail("C23/handed-out-twice", format!("thread {who} was handed the buffer that thread {other} still holds (alloc::<{}>({cap_req}))", TYPE_NAMES[ty]));
            }
            Some(Rec { state: State::Pooled, bytes: pb, align: pa }) => {
                self.hits += 1;
                if cap_got > cap_req {
                    self.hits_larger += 1;
                }
                if pb != bytes || pa != align {
                    // dropping the Vec<E> later would deallocate with a layout other than the one allocated with
                    self.fail("C23/layout-mismatch", format!("a pooled buffer of {pb} bytes align {pa} was handed out as Vec<{}> with capacity {cap_got} ({bytes} bytes, align {align})", TYPE_NAMES[ty]));
                }
                if cap_req * size < min_size {
                    self.fail("C23/below-threshold-hit", format!("a request below min_size ({} < {min_size}) was served from the pool", cap_req * size));
                }
                self.bufs.insert(ptr, Rec { bytes, align, state: State::Held(who) });
            }
            None => {
                if size > 0 && cap_got > 0 {
                    self.bufs.insert(ptr, Rec { bytes, align, state: State::Held(who) });
                } else {
                    self.saw_zero_capacity = true;
                }
            }
        }
    }

    /// The holder gives the buffer up. `to_pool`: it was offered to the pool
    /// (which keeps it iff it is at least `min_size` bytes).
    fn on_release(&mut self, who: usize, ptr: usize, to_pool: bool, min_size: usize) {
        match self.bufs.get(&ptr).cloned() {
            Some(Rec { state: State::Held(h), bytes, align }) if h == who => {
                if to_pool {
                    self.returned += 1;
                }
                if to_pool && bytes >= min_size {
                    self.bufs.insert(ptr, Rec { bytes, align, state: State::Pooled });
                } else {
                    self.bufs.remove(&ptr);
                }
            }
            Some(other) => self.fail("C23/model-confused", format!("thread {who} released a buffer in state {:?}", other.state)),
            None => {}
        }
    }

    pub fn pooled(&self) -> usize {
        self.bufs.values().filter(|r| r.state == State::Pooled).count()
    }
}

trait Elem: Sized + 'static {
    const IDX: usize;
    fn sample(i: usize) -> Self;
}
macro_rules! elem {
    ($t:ty, $i:expr, $e:expr) => {
        impl Elem for $t {
            const IDX: usize = $i;
            fn sample(i: usize) -> Self {
                let f: fn(usize) -> $t = $e;
                f(i)
            }
        }
    };
}
elem!(u8, 0, |i| i as u8);
elem!(u16, 1, |i| i as u16);
elem!(i32, 2, |i| i as i32);
elem!(f32, 3, |i| i as f32);
elem!(u64, 4, |i| i as u64);
elem!([u8; 3], 5, |i| [i as u8; 3]);
elem!([u8; 16], 6, |i| [i as u8; 16]);
elem!([u32; 4], 7, |i| [i as u32; 4]);
elem!([u16; 2], 8, |i| [i as u16; 2]);
elem!([u8; 4], 9, |i| [i as u8; 4]);
// a zero-sized element type: its Vec owns no memory (dangling pointer, capacity usize::MAX)
elem!((), 10, |_| ());

fn one_op<E: Elem + Copy + Send>(pool: &BufferPool, model: &StdMutex<PoolModel>, who: usize, opi: usize, op: &PoolOp, min_size: usize) {
    let size = std::mem::size_of::<E>();
    let align = std::mem::align_of::<E>();
    let mut v: Vec<E> = pool.alloc::<E>(op.cap);
    let ptr = v.as_ptr() as usize;
    let cap = v.capacity();
    model.lock().unwrap().on_alloc(who, E::IDX, ptr, op.cap, cap, size, align, min_size);
    // fill the whole capacity with a pattern unique to (thread, op)
    if !model.lock().unwrap().violations.is_empty() {
        // the buffer cannot be trusted: do not write through it, and do not let its destructor run
        std::mem::forget(v);
        return;
    }
    let pattern = (who * 16 + opi + 1) as u8;
    let nbytes = cap.saturating_mul(size).min(1 << 20);
    if size > 0 && cap > 0 {
        // Safety: the allocation has `cap * size` bytes; writing bytes to spare capacity is allowed.
        unsafe { std::ptr::write_bytes(v.as_mut_ptr() as *mut u8, pattern, nbytes) };
    }
    for _ in 0..op.hold {
        rt::pause();
    }
    if size > 0 && cap > 0 {
        // nobody else may have written to the buffer we hold
        let intact = unsafe { std::slice::from_raw_parts(v.as_ptr() as *const u8, nbytes) }.iter().all(|b| *b == pattern);
        if !intact {
            model.lock().unwrap().fail("C23/buffer-written-by-other-holder", format!("thread {who} op {opi}: the pattern written into the held buffer changed while it was held"));
        }
    }
    match op.release {
        Release::Add => {
            model.lock().unwrap().on_release(who, ptr, true, min_size);
            pool.add(v);
        }
        Release::Drop => {
            model.lock().unwrap().on_release(who, ptr, false, min_size);
            drop(v);
        }
        Release::PoolRefDrop => {
            let r = v.auto_return(pool);
            // `Vec::extract_buffer` only offers non-empty allocations
            model.lock().unwrap().on_release(who, ptr, cap > 0, min_size);
            drop(r);
        }
        Release::PoolRefTake => {
            let r = v.auto_return(pool);
            let back = r.take();
            model.lock().unwrap().on_release(who, ptr, false, min_size);
            drop(back);
        }
        Release::TensorExtract => {
            let n = op.cap.min(cap);
            for i in 0..n {
                v.push(E::sample(i));
            }
            let t = Tensor::from_data(&[n], v);
            let buf = t.extract_buffer();
            model.lock().unwrap().on_release(who, ptr, buf.is_some(), min_size);
            if let Some(b) = buf {
                pool.add(b);
            }
        }
    }
}

fn dispatch(pool: &BufferPool, model: &StdMutex<PoolModel>, who: usize, opi: usize, op: &PoolOp, min_size: usize) {
    match op.ty % TYPE_NAMES.len() {
        0 => one_op::<u8>(pool, model, who, opi, op, min_size),
        1 => one_op::<u16>(pool, model, who, opi, op, min_size),
        2 => one_op::<i32>(pool, model, who, opi, op, min_size),
        3 => one_op::<f32>(pool, model, who, opi, op, min_size),
        4 => one_op::<u64>(pool, model, who, opi, op, min_size),
        5 => one_op::<[u8; 3]>(pool, model, who, opi, op, min_size),
        6 => one_op::<[u8; 16]>(pool, model, who, opi, op, min_size),
        7 => one_op::<[u32; 4]>(pool, model, who, opi, op, min_size),
        8 => one_op::<[u16; 2]>(pool, model, who, opi, op, min_size),
        9 => one_op::<[u8; 4]>(pool, model, who, opi, op, min_size),
        _ => one_op::<()>(pool, model, who, opi, op, min_size),
    }
}

/// Run the scenario on the current runtime (Shuttle execution or plain threads).
pub fn run(sc: &Scenario, model: Arc<StdMutex<PoolModel>>) {
    let pool = Arc::new(BufferPool::new().with_min_size(sc.min_size));
    let mut handles: Vec<rt::JoinHandle<()>> = Vec::new();
    for (who, ops) in sc.threads.iter().cloned().enumerate() {
        let pool = pool.clone();
        let model = model.clone();
        let min_size = sc.min_size;
        handles.push(rt::spawn(move || {
            for (opi, op) in ops.iter().enumerate() {
                dispatch(&pool, &model, who, opi, op, min_size);
            }
        }));
    }
    for h in handles {
        let _ = h.join();
    }
    // quiescence: what the pool holds is what the model says was returned and not taken again
    let len = pool.len();
    let mut m = model.lock().unwrap();
    let expect = m.pooled();
    if len != expect && !m.saw_zero_capacity {
        m.fail("C23/returned-buffer-lost-or-duplicated", format!("after all threads finished the pool holds {len} buffers but {expect} returned buffers were never handed out again"));
    }
    drop(m);
    // dropping the pool frees every pooled buffer exactly once (checked by Miri / the allocator)
    drop(pool);
}
