//! sim_pool — C23: the buffer pool hands out each buffer once with adequate
//! capacity.
//!
//! The pool is the real `/repo/src/buffer_pool.rs`, compiled into this crate
//! with its `Mutex` and atomics replaced by Shuttle's (hook: one cfg'd import
//! swap), so the simulator's seeded scheduler decides every interleaving at
//! exactly the synchronisation points the code has. A second back end
//! (`pool_miri`, std primitives under Miri's seeded scheduler) decides what
//! Shuttle cannot see: double free, wrong-layout free, leaks, data races.

#[path = "/repo/src/buffer_pool.rs"]
mod buffer_pool;
mod genscn;
mod scenario;
#[path = "../../common/shuttle_server.rs"]
mod shuttle_server;

use scenario::{PoolModel, Release, Scenario};
use serde::{Deserialize, Serialize};
use shuttle_server::Sched;
use simcore::driver::{self, Ctx, Engine, EngineInfo, Outcome, Tier, Violation};
use simcore::rng::{fnv64, mix, Rng};
use std::sync::{Arc, Mutex as StdMutex};

#[derive(Clone, Debug, Serialize, Deserialize)]
pub struct PoolCase {
    pub scenario: Scenario,
    pub sched: Sched,
}

struct PoolEngine {
    n: u64,
}

fn config() -> shuttle::Config {
    let mut c = shuttle::Config::new();
    c.failure_persistence = shuttle::FailurePersistence::None;
    c.max_steps = shuttle::MaxSteps::FailAfter(100_000);
    c.silence_warnings = true;
    c
}

/// One controlled execution. Returns (first violation, schedule, model counters).
fn execute(case: &PoolCase) -> (Option<(String, String)>, Vec<usize>, (u64, u64, u64, u64)) {
    let model = Arc::new(StdMutex::new(PoolModel::default()));
    let sc = case.scenario.clone();
    let m2 = model.clone();
    let (r, schedule) = shuttle_server::execute(&case.sched, config, false, move || scenario::run(&sc, m2.clone()));
    let m = model.lock().unwrap_or_else(|e| e.into_inner());
    let counters = (m.allocs, m.hits, m.hits_larger, m.returned);
    let mut v = m.violations.first().cloned();
    if v.is_none() {
        if let Err(p) = r {
            let class = if p.message.contains("deadlock") {
                "C23/deadlock".to_string()
            } else if p.message.contains("exceeded max_steps") || p.message.contains("max_steps") {
                "C23/livelock".to_string()
            } else {
                format!("C23/panic/{}", simcore::catch::panic_site(&p))
            };
            v = Some((class, format!("{} at {}", p.message.lines().next().unwrap_or(""), p.location)));
        }
    }
    (v, schedule, counters)
}

impl Engine for PoolEngine {
    type Case = PoolCase;

    fn name() -> &'static str {
        "sim_pool"
    }
    fn engine_id() -> u64 {
        23
    }
    fn properties() -> Vec<&'static str> {
        vec!["C23"]
    }

    fn new(_p: &str, tier: Tier, _seed: u64) -> Self {
        PoolEngine {
            n: match tier {
                Tier::Quick => 5_000_000,
                Tier::Thorough => 100_000_000,
            },
        }
    }

    fn info(&self) -> EngineInfo {
        EngineInfo {
            level: "exploration",
            rule: "Seeded scenarios: 2-3 simulated caller threads x 3-6 operations on one BufferPool with min_size in {0, 1, 16, 128}: alloc::<E>(cap) for E in {u8, u16, i32, f32, u64, [u8;3], [u8;16], [u32;4], [u16;2], [u8;4], ()} (equal and different sizes and alignments, one zero-sized type) with cap around the threshold; the whole capacity is filled with a per-(thread, op) pattern, held across 0-2 scheduling points, verified, then released by add / drop / PoolRef drop / PoolRef::take / tensor extract_buffer. One controlled execution per case under a seeded random-walk or PCT (depth 1-3) scheduler; every scheduling point is a Mutex lock/unlock or atomic access inside the real buffer_pool.rs, plus the holds. A reference model (pointer -> bytes, alignment, owner/pooled) is checked at every alloc and release and at quiescence. Non-trivial = at least 2 context switches and at least one pool hit or return; distinct = hash of the recorded task-id sequence together with the scenario.".into(),
            real_components: vec!["/repo/src/buffer_pool.rs compiled into the harness unchanged except for the cfg'd import swap: BufferPool::{alloc, add, len}, Buffer::{from_vec, into_vec, can_fit, layout_match, release}, PoolRef, AutoReturn, ExtractBuffer for Vec and Tensor".into()],
            stub_components: vec!["std::sync::Mutex / AtomicUsize -> shuttle::sync::{Mutex, atomic::AtomicUsize}; caller threads -> shuttle coroutines (the Miri back end, run by the same check, uses std primitives and real threads under Miri's seeded scheduler)".into()],
            assumptions: vec![
                "pool statistics (alloc_count, hit_count) and *which* buffers are retained are not part of the property and are only reported".into(),
                "double free / free with a wrong layout / leaks / data races are decided by the Miri back end (64 seeds in quick, 2048 in thorough), not by Shuttle".into(),
            ],
            technique: "deterministic simulation (Shuttle seeded random + PCT schedules over the real pool with a reference ownership model; Miri many-seeds as second seeded scheduler for memory errors)".into(),
            hang_secs: 60,
            expected_probes: vec!["probe:pool_hit".into(), "probe:pool_hit_larger_capacity".into(), "probe:returned_to_pool".into(), "probe:context_switches>=2".into(), "probe:pct_schedule".into(), "probe:random_schedule".into(), "probe:three_threads".into()],
        }
    }

    fn num_cases(&self) -> u64 {
        self.n
    }

    fn make_case(&self, _index: u64, seed: u64) -> PoolCase {
        let mut r = Rng::new(seed);
        let scenario = genscn::scenario(&mut r, false);
        let sched = if r.chance(1, 3) { Sched::Pct { seed: r.next_u64(), depth: r.urange(1, 3) } } else { Sched::Random { seed: r.next_u64() } };
        PoolCase { scenario, sched }
    }

    fn run_case(&self, case: &PoolCase, ctx: &mut Ctx) -> Outcome {
        if case.scenario.threads.is_empty() || case.scenario.threads.len() > 4 || case.scenario.threads.iter().any(|t| t.len() > 12 || t.iter().any(|o| o.cap > 1 << 16)) {
            return Outcome { executions: 1, ..Default::default() };
        }
        let (v, schedule, (allocs, hits, larger, returned)) = execute(case);
        let switches = schedule.windows(2).filter(|w| w[0] != w[1]).count();
        ctx.add("probe:pool_allocs_above_threshold", allocs);
        ctx.add("probe:pool_hit", hits);
        ctx.add("probe:pool_hit_larger_capacity", larger);
        ctx.add("probe:returned_to_pool", returned);
        if switches >= 2 {
            ctx.count("probe:context_switches>=2");
        }
        match case.sched {
            Sched::Pct { .. } => ctx.count("probe:pct_schedule"),
            Sched::Random { .. } => ctx.count("probe:random_schedule"),
            Sched::Explicit(_) => ctx.count("probe:explicit_schedule"),
        }
        if case.scenario.threads.len() >= 3 {
            ctx.count("probe:three_threads");
        }
        let sched_hash = fnv64(&schedule.iter().flat_map(|t| (*t as u32).to_le_bytes()).collect::<Vec<u8>>());
        let v_is_some = v.is_some();
        Outcome {
            violation: v.map(|(k, d)| Violation::new(k, format!("{d} [schedule {:?}]", &schedule[..schedule.len().min(80)]))),
            nontrivial: switches >= 2 && (hits > 0 || returned > 0),
            steps: schedule.len() as u64,
            trace_hash: mix(&[sched_hash, hits, returned]),
            executions: 1,
            // the recorded schedule, so that minimisation edits the scenario without re-rolling the schedule
            // (and so that nobody has to run a failing scenario again just to learn its schedule)
            explicit_case: if v_is_some && !matches!(case.sched, Sched::Explicit(_)) { serde_json::to_value(PoolCase { scenario: case.scenario.clone(), sched: Sched::Explicit(schedule.clone()) }).ok() } else { None },
        }
    }

    fn shrink(&self, case: &PoolCase) -> Vec<PoolCase> {
        let mut out = Vec::new();
        let sc = &case.scenario;
        if sc.threads.len() > 2 {
            for i in 0..sc.threads.len() {
                let mut c = case.clone();
                c.scenario.threads.remove(i);
                out.push(c);
            }
        }
        for (ti, t) in sc.threads.iter().enumerate() {
            for oi in (0..t.len()).rev() {
                let mut c = case.clone();
                c.scenario.threads[ti].remove(oi);
                out.push(c);
            }
        }
        for (ti, t) in sc.threads.iter().enumerate() {
            for (oi, op) in t.iter().enumerate() {
                if op.hold > 0 {
                    let mut c = case.clone();
                    c.scenario.threads[ti][oi].hold = 0;
                    out.push(c);
                }
                if op.release != Release::Add {
                    let mut c = case.clone();
                    c.scenario.threads[ti][oi].release = Release::Add;
                    out.push(c);
                }
                if op.ty != 0 {
                    let mut c = case.clone();
                    c.scenario.threads[ti][oi].ty = 0;
                    out.push(c);
                }
            }
        }
        if let Sched::Explicit(list) = &case.sched {
            // fewer context switches: cut the tail, then drop single entries
            for cut in [list.len() / 2, list.len() * 3 / 4, list.len().saturating_sub(1)] {
                if cut < list.len() {
                    out.push(PoolCase { scenario: sc.clone(), sched: Sched::Explicit(list[..cut].to_vec()) });
                }
            }
            for i in 0..list.len().min(64) {
                let mut l = list.clone();
                l.remove(i);
                out.push(PoolCase { scenario: sc.clone(), sched: Sched::Explicit(l) });
            }
        }
        out
    }
}

fn main() {
    driver::main::<PoolEngine>();
}
