//! sim_serialize — C34: tensor file formats round-trip and reject malformed files.
//!
//! The simulator owns the writer (`SimWriter`: short writes, EINTR, full disk,
//! crash at byte o, failing flush), the stored bytes (every torn prefix, every
//! single-byte fault) and the reader (`SimReader`/`SimFile`: short reads, EINTR,
//! I/O errors, early EOF) around the real `rten_serialize` code (and the `zip`
//! and `safetensors` crates it drives).

use rten_serialize::{npy, npz, safetensors, Value, View};
use rten_tensor::prelude::*;
use rten_tensor::{SliceItem, Tensor};
use serde::{Deserialize, Serialize};
use simcore::catch::{catch, panic_site, PanicInfo};
use simcore::devices::{apply_faults, ByteFault, ReadPlan, SimFile, SimWriter, WritePlan};
use simcore::driver::{self, Ctx, Engine, EngineInfo, Outcome, Tier, Violation};
use simcore::rng::{fnv64, mix, Rng};
use std::collections::BTreeMap;
use std::io::{self, Cursor};
use std::rc::Rc;

#[derive(Clone, Copy, Debug, Serialize, Deserialize, PartialEq)]
pub enum Format {
    Npy,
    Npz,
    SafeTensors,
}

const DTYPES: [&str; 11] = ["bool", "i8", "i16", "i32", "i64", "u8", "u16", "u32", "u64", "f32", "f64"];

#[derive(Clone, Debug, Serialize, Deserialize, PartialEq)]
pub struct TSpec {
    pub name: String,
    /// Index into `DTYPES`.
    pub dtype: usize,
    pub base_shape: Vec<usize>,
    pub perm: Option<Vec<usize>>,
    /// `(axis, step)`: keep every `step`-th index along `axis`.
    pub step: Option<(usize, usize)>,
    pub seed: u64,
}

#[derive(Clone, Debug, Serialize, Deserialize, PartialEq)]
pub struct FileSpec {
    pub format: Format,
    pub tensors: Vec<TSpec>,
}

#[derive(Clone, Debug, Serialize, Deserialize, PartialEq)]
pub enum Phase {
    /// Write through a faulty device, then check the sink.
    Write(WritePlan),
    /// Read the fault-free file through a faulty device.
    Read(ReadPlan),
    /// Apply storage faults to the fault-free file, then read it.
    Stored(Vec<ByteFault>, ReadPlan),
    /// Arbitrary bytes.
    Raw(String),
}

#[derive(Clone, Debug, Serialize, Deserialize)]
pub struct SerCase {
    pub spec: FileSpec,
    pub phase: Phase,
    pub note: String,
}

/// Canonical form of a tensor: (dtype index, shape, little-endian element bytes).
type Canon = (usize, Vec<usize>, Vec<u8>);

macro_rules! with_dtype {
    ($d:expr, $T:ident => $body:expr) => {
        match $d {
            0 => { type $T = bool; $body }
            1 => { type $T = i8; $body }
            2 => { type $T = i16; $body }
            3 => { type $T = i32; $body }
            4 => { type $T = i64; $body }
            5 => { type $T = u8; $body }
            6 => { type $T = u16; $body }
            7 => { type $T = u32; $body }
            8 => { type $T = u64; $body }
            9 => { type $T = f32; $body }
            _ => { type $T = f64; $body }
        }
    };
}

trait Elem: Copy + 'static {
    fn gen(r: &mut Rng) -> Self;
    fn le(self) -> Vec<u8>;
}
macro_rules! int_elem {
    ($($t:ty),*) => {$(
        impl Elem for $t {
            fn gen(r: &mut Rng) -> Self {
                match r.below(6) {
                    0 => <$t>::MIN,
                    1 => <$t>::MAX,
                    2 => 0 as $t,
                    _ => r.next_u64() as $t,
                }
            }
            fn le(self) -> Vec<u8> { self.to_le_bytes().to_vec() }
        }
    )*};
}
int_elem!(i8, i16, i32, i64, u8, u16, u32, u64);
impl Elem for bool {
    fn gen(r: &mut Rng) -> Self {
        r.bool()
    }
    fn le(self) -> Vec<u8> {
        vec![self as u8]
    }
}
impl Elem for f32 {
    fn gen(r: &mut Rng) -> Self {
        match r.below(8) {
            0 => f32::NAN,
            1 => f32::INFINITY,
            2 => -0.0,
            3 => f32::MIN_POSITIVE / 2.0,
            _ => f32::from_bits(r.next_u64() as u32),
        }
    }
    fn le(self) -> Vec<u8> {
        self.to_le_bytes().to_vec()
    }
}
impl Elem for f64 {
    fn gen(r: &mut Rng) -> Self {
        match r.below(8) {
            0 => f64::NAN,
            1 => f64::NEG_INFINITY,
            2 => -0.0,
            _ => f64::from_bits(r.next_u64()),
        }
    }
    fn le(self) -> Vec<u8> {
        self.to_le_bytes().to_vec()
    }
}

fn build<T: Elem>(s: &TSpec) -> Tensor<T> {
    let n: usize = s.base_shape.iter().product();
    let mut r = Rng::new(s.seed);
    Tensor::from_data(&s.base_shape, (0..n).map(|_| T::gen(&mut r)).collect::<Vec<T>>())
}

/// Apply the view operations of `s` to `base` and hand the (possibly
/// non-contiguous) view to `f`.
fn with_view<T: Elem, R>(s: &TSpec, base: &Tensor<T>, f: impl FnOnce(rten_tensor::TensorView<'_, T>) -> R) -> R {
    let v = base.view();
    let v = match &s.perm {
        Some(p) if p.len() == v.ndim() => v.permuted(p),
        _ => v,
    };
    match s.step {
        Some((axis, step)) if axis < v.ndim() && step >= 1 => {
            let items: Vec<SliceItem> = (0..v.ndim()).map(|d| if d == axis { SliceItem::Range(rten_tensor::SliceRange::new(0, None, step as isize)) } else { SliceItem::full_range() }).collect();
            f(v.slice(items.as_slice()))
        }
        _ => f(v),
    }
}

fn canon_of_spec(s: &TSpec) -> Canon {
    with_dtype!(s.dtype, T => {
        let base = build::<T>(s);
        with_view(s, &base, |v| {
            let mut bytes = Vec::new();
            for x in v.iter() {
                bytes.extend(Elem::le(*x));
            }
            (s.dtype, v.shape().to_vec(), bytes)
        })
    })
}

fn canon_of_value(v: &Value) -> Canon {
    fn c<T: Elem>(d: usize, t: &Tensor<T>) -> Canon {
        let mut bytes = Vec::new();
        for x in t.iter() {
            bytes.extend(Elem::le(*x));
        }
        (d, t.shape().to_vec(), bytes)
    }
    match v {
        Value::Bool(t) => c(0, t),
        Value::Int8(t) => c(1, t),
        Value::Int16(t) => c(2, t),
        Value::Int32(t) => c(3, t),
        Value::Int64(t) => c(4, t),
        Value::UInt8(t) => c(5, t),
        Value::UInt16(t) => c(6, t),
        Value::UInt32(t) => c(7, t),
        Value::UInt64(t) => c(8, t),
        Value::Float32(t) => c(9, t),
        Value::Float64(t) => c(10, t),
        _ => (99, vec![], vec![]),
    }
}

/// What a read returned, in comparable form. Names are sorted (`BTreeMap`):
/// the readers return `HashMap`s whose order is not part of the result.
type ReadResult = Result<BTreeMap<String, Canon>, String>;

fn entry_name(format: Format, name: &str) -> String {
    match format {
        Format::Npz => name.strip_suffix(".npy").unwrap_or(name).to_string(),
        _ => name.to_string(),
    }
}

/// Serialise `spec` through `writer` with the real code.
fn do_write<W: io::Write + io::Seek>(spec: &FileSpec, writer: W) -> io::Result<()> {
    // Typed storage for every tensor has to outlive the views.
    enum Owned {
        B(Tensor<bool>), I8(Tensor<i8>), I16(Tensor<i16>), I32(Tensor<i32>), I64(Tensor<i64>),
        U8(Tensor<u8>), U16(Tensor<u16>), U32(Tensor<u32>), U64(Tensor<u64>), F32(Tensor<f32>), F64(Tensor<f64>),
    }
    let owned: Vec<Owned> = spec
        .tensors
        .iter()
        .map(|s| match s.dtype {
            0 => Owned::B(build(s)), 1 => Owned::I8(build(s)), 2 => Owned::I16(build(s)), 3 => Owned::I32(build(s)), 4 => Owned::I64(build(s)),
            5 => Owned::U8(build(s)), 6 => Owned::U16(build(s)), 7 => Owned::U32(build(s)), 8 => Owned::U64(build(s)), 9 => Owned::F32(build(s)),
            _ => Owned::F64(build(s)),
        })
        .collect();
    fn view_of<'a, T: Elem>(s: &TSpec, t: &'a Tensor<T>) -> rten_tensor::TensorView<'a, T> {
        let v = t.view();
        let v = match &s.perm {
            Some(p) if p.len() == v.ndim() => v.permuted(p),
            _ => v,
        };
        match s.step {
            Some((axis, step)) if axis < v.ndim() && step >= 1 => {
                let items: Vec<SliceItem> = (0..v.ndim()).map(|d| if d == axis { SliceItem::Range(rten_tensor::SliceRange::new(0, None, step as isize)) } else { SliceItem::full_range() }).collect();
                v.slice(items.as_slice())
            }
            _ => v,
        }
    }
    let views: Vec<(String, View)> = spec
        .tensors
        .iter()
        .zip(&owned)
        .map(|(s, o)| {
            let v: View = match o {
                Owned::B(t) => view_of(s, t).into(), Owned::I8(t) => view_of(s, t).into(), Owned::I16(t) => view_of(s, t).into(), Owned::I32(t) => view_of(s, t).into(),
                Owned::I64(t) => view_of(s, t).into(), Owned::U8(t) => view_of(s, t).into(), Owned::U16(t) => view_of(s, t).into(), Owned::U32(t) => view_of(s, t).into(),
                Owned::U64(t) => view_of(s, t).into(), Owned::F32(t) => view_of(s, t).into(), Owned::F64(t) => view_of(s, t).into(),
            };
            (s.name.clone(), v)
        })
        .collect();
    match spec.format {
        Format::Npy => npy::write(writer, views.into_iter().next().expect("one tensor").1),
        Format::Npz => npz::write(writer, views),
        Format::SafeTensors => safetensors::write(writer, views),
    }
}

fn do_read<R: io::Read + io::Seek>(format: Format, reader: R, single: Option<&str>) -> io::Result<BTreeMap<String, Canon>> {
    let mut out = BTreeMap::new();
    match (format, single) {
        (Format::Npy, _) => {
            out.insert(String::new(), canon_of_value(&npy::read(reader)?));
        }
        (Format::Npz, None) => {
            for (k, v) in npz::read(reader)? {
                out.insert(k, canon_of_value(&v));
            }
        }
        (Format::Npz, Some(n)) => {
            out.insert(entry_name(format, n), canon_of_value(&npz::read_array(reader, n)?));
        }
        (Format::SafeTensors, None) => {
            for (k, v) in safetensors::read(reader)? {
                out.insert(k, canon_of_value(&v));
            }
        }
        (Format::SafeTensors, Some(n)) => {
            out.insert(n.to_string(), canon_of_value(&safetensors::read_array(reader, n)?));
        }
    }
    Ok(out)
}

fn expected_map(spec: &FileSpec) -> BTreeMap<String, Canon> {
    let mut m = BTreeMap::new();
    for t in &spec.tensors {
        let name = if spec.format == Format::Npy { String::new() } else { entry_name(spec.format, &t.name) };
        m.insert(name, canon_of_spec(t));
    }
    m
}

fn fmt_name(f: Format) -> &'static str {
    match f {
        Format::Npy => "npy",
        Format::Npz => "npz",
        Format::SafeTensors => "safetensors",
    }
}

fn msg_class(m: &str) -> String {
    let mut out = String::new();
    for c in m.chars() {
        if out.len() >= 40 {
            break;
        }
        if c.is_ascii_alphabetic() {
            out.push(c.to_ascii_lowercase());
        } else if !out.ends_with('-') && !out.is_empty() {
            out.push('-');
        }
    }
    out.trim_end_matches('-').to_string()
}

fn panic_key(f: Format, what: &str, p: &PanicInfo) -> String {
    format!("C34/panic/{}/{what}/{}:{}", fmt_name(f), panic_site(p), msg_class(&p.message))
}

struct CorpusFile {
    spec: FileSpec,
    bytes: Vec<u8>,
}

struct SerEngine {
    corpus: Vec<CorpusFile>,
    /// (file, first index, count) for the enumerated part
    sections: Vec<(usize, u64, u64)>,
    enumerated: u64,
    seeded: u64,
    raw_specials: Vec<(Format, Vec<u8>, String)>,
}

const WRITE_PLANS: usize = 12;
const READ_PLANS: usize = 10;

fn write_plan(k: usize, len: usize) -> WritePlan {
    let l = len as u64;
    match k {
        0 => WritePlan { max_write: 1, ..Default::default() },
        1 => WritePlan { max_write: 7, ..Default::default() },
        2 => WritePlan { max_write: 3, interrupt_calls: vec![0, 2, 5], ..Default::default() },
        3 => WritePlan { zero_write_at_call: Some(0), ..Default::default() },
        4 => WritePlan { zero_write_at_call: Some(2), max_write: 16, ..Default::default() },
        5 => WritePlan { crash_after_bytes: Some(0), ..Default::default() },
        6 => WritePlan { crash_after_bytes: Some(l / 2), ..Default::default() },
        7 => WritePlan { crash_after_bytes: Some(l.saturating_sub(1)), ..Default::default() },
        8 => WritePlan { error_at_call: Some(0), ..Default::default() },
        9 => WritePlan { error_at_call: Some(1), max_write: 32, ..Default::default() },
        10 => WritePlan { flush_error: true, ..Default::default() },
        _ => WritePlan { interrupt_calls: vec![1], ..Default::default() },
    }
}

fn read_plan(k: usize, len: usize) -> ReadPlan {
    let l = len as u64;
    match k {
        0 => ReadPlan { max_read: 1, ..Default::default() },
        1 => ReadPlan { max_read: 3, ..Default::default() },
        2 => ReadPlan { max_read: 2, interrupt_calls: vec![0, 3, 4], ..Default::default() },
        3 => ReadPlan { interrupt_calls: vec![1], ..Default::default() },
        4 => ReadPlan { error_at_offset: Some(0), ..Default::default() },
        5 => ReadPlan { error_at_offset: Some(l / 2), ..Default::default() },
        6 => ReadPlan { error_at_offset: Some(l.saturating_sub(1)), ..Default::default() },
        7 => ReadPlan { error_at_call: Some(1), max_read: 16, ..Default::default() },
        8 => ReadPlan { seek_error_at_call: Some(0), ..Default::default() },
        _ => ReadPlan { max_read: 5, seek_error_at_call: Some(2), ..Default::default() },
    }
}

fn gen_tspec(r: &mut Rng, name: String) -> TSpec {
    let rank = *r.pick(&[0usize, 1, 1, 2, 2, 3, 4]);
    let base_shape: Vec<usize> = (0..rank).map(|_| *r.pick(&[0usize, 1, 2, 2, 3, 4])).collect();
    let perm = if rank >= 2 && r.chance(1, 3) {
        let mut p: Vec<usize> = (0..rank).collect();
        r.shuffle(&mut p);
        Some(p)
    } else {
        None
    };
    let step = if rank >= 1 && r.chance(1, 3) { Some((r.usize_below(rank), r.urange(2, 3))) } else { None };
    TSpec { name, dtype: r.usize_below(11), base_shape, perm, step, seed: r.next_u64() }
}

fn gen_name(r: &mut Rng, i: usize) -> String {
    match r.below(13) {
        // a logical name that itself ends in ".npy" (numpy: savez(**{"a.npy": x}) stores member "a.npy.npy")
        10 => format!("a{i}.npy.npy"),
        11 => format!("b{i}.npy.npy.npy"),
        12 => format!("c{i}.NPY"),
        0 => format!("t{i}.npy"),
        1 => format!("weights/layer.{i}"),
        2 => format!("tënsor_{i}_名前"),
        3 => format!("{}", "n".repeat(r.urange(1, 70)) + &i.to_string()),
        4 => format!(" spaced name {i}"),
        _ => format!("arr_{i}"),
    }
}

fn gen_spec(r: &mut Rng) -> FileSpec {
    let format = *r.pick(&[Format::Npy, Format::Npz, Format::SafeTensors]);
    let n = match format {
        Format::Npy => 1,
        _ => r.urange(0, 3),
    };
    let tensors = (0..n)
        .map(|i| {
            let name = gen_name(r, i);
            gen_tspec(r, name)
        })
        .collect();
    FileSpec { format, tensors }
}

fn find_all(hay: &[u8], needle: &[u8]) -> Vec<usize> {
    if needle.is_empty() || hay.len() < needle.len() {
        return vec![];
    }
    (0..=hay.len() - needle.len()).filter(|i| &hay[*i..*i + needle.len()] == needle).collect()
}

/// Rewrite one token of a valid file's header so that it lies: byte order,
/// Fortran order, format version, shapes, dtypes, data offsets.
fn header_lies(bytes: &[u8], r: &mut Rng) -> Vec<ByteFault> {
    let table: &[(&[u8], &[&[u8]])] = &[
        (b"'<", &[b"'>", b"'=", b"'|", b"'!"]),
        (b"'|", &[b"'>", b"'<"]),
        (b"False", &[b"True ", b"True", b"false"]),
        (b"\x93NUMPY\x01\x00", &[b"\x93NUMPY\x02\x00", b"\x93NUMPY\x03\x00", b"\x93NUMPY\x00\x00", b"\x93NUMPY\xff\x00"]),
        (b"'shape': (", &[b"'shape': (4294967295,", b"'shape': (18446744073709551615,", b"'shape': (0, 9223372036854775807,", b"'shape': (-1,", b"'shape': (1,1,1,1,1,1,1,1,1,", b"'shape': ((", b"'shape': (99999999999999999999999,", b"'shape': (9223372036854775807, 3, 0,"]),
        (b"i8'", &[b"i0'", b"i3'", b"i16'", b"c8'", b"U8'", b"f8'"]),
        (b"f4'", &[b"f2'", b"f0'", b"i4'", b"f99999999999999999999'"]),
        (b"\"shape\":[", &[b"\"shape\":[4611686018427387904,4,", b"\"shape\":[18446744073709551615,", b"\"shape\":[-1,", b"\"shape\":[[", b"\"shape\":[1e3,", b"\"shape\":[0,9223372036854775807,", b"\"shape\":[9223372036854775807,3,0,"]),
        (b"\"data_offsets\":[", &[b"\"data_offsets\":[18446744073709551615,", b"\"data_offsets\":[9,1,", b"\"data_offsets\":[0,0,", b"\"data_offsets\":[1,"]),
        (b"\"dtype\":\"", &[b"\"dtype\":\"F16\",\"x\":\"", b"\"dtype\":\"BF16\",\"x\":\"", b"\"dtype\":\"I64\",\"x\":\"", b"\"dtype\":\"U8\",\"x\":\""]),
        (b".npy", &[b".npz", b"/../", b".NPY"]),
        (b"PK\x03\x04", &[b"PK\x01\x02", b"PK\x05\x06"]),
        (b"PK\x01\x02", &[b"PK\x03\x04"]),
    ];
    let mut hits: Vec<(usize, usize)> = Vec::new();
    for (ti, (needle, _)) in table.iter().enumerate() {
        for pos in find_all(bytes, needle) {
            hits.push((ti, pos));
        }
    }
    if hits.is_empty() {
        return vec![ByteFault::Truncate(bytes.len() / 2)];
    }
    let n = r.urange(1, 2);
    let mut out = Vec::new();
    for _ in 0..n {
        let (ti, pos) = *r.pick(&hits);
        let (needle, alts) = table[ti];
        out.push(ByteFault::Replace { pos, len: needle.len(), bytes: r.pick(alts).to_vec() });
    }
    // apply from the back so earlier positions stay valid
    out.sort_by_key(|f| match f {
        ByteFault::Replace { pos, .. } => std::cmp::Reverse(*pos),
        _ => std::cmp::Reverse(0),
    });
    out
}

fn reference_bytes(spec: &FileSpec) -> Result<Vec<u8>, String> {
    let mut cur = Cursor::new(Vec::new());
    match catch(|| do_write(spec, &mut cur)) {
        Ok(Ok(())) => Ok(cur.into_inner()),
        Ok(Err(e)) => Err(format!("err:{e}")),
        Err(p) => Err(format!("panic:{} at {}", p.message, p.location)),
    }
}

impl SerEngine {
    fn read_checked(&self, format: Format, bytes: Rc<Vec<u8>>, plan: &ReadPlan, single: Option<&str>, ctx: &mut Ctx) -> (Result<ReadResult, PanicInfo>, simcore::devices::IoStats) {
        let len = bytes.len() as u64;
        let (file, stats) = SimFile::new(bytes, plan.clone());
        // generous: zip looks for the end-of-central-directory record backwards
        let file = file.with_budget(64 * len + 4096, 64 * len + 65536);
        let r = catch(move || do_read(format, file, single).map_err(|e| format!("{:?}", e.kind())));
        let st = stats.borrow().clone();
        ctx.add("fault:short_read", st.short_reads);
        ctx.add("fault:eintr", st.interrupts_fired);
        ctx.add("fault:io_error", st.errors_fired);
        ctx.add("fault:device_eof", st.eof_fired);
        (r, st)
    }
}

impl Engine for SerEngine {
    type Case = SerCase;

    fn name() -> &'static str {
        "sim_serialize"
    }
    fn engine_id() -> u64 {
        34
    }
    fn properties() -> Vec<&'static str> {
        vec!["C34"]
    }

    fn new(_p: &str, tier: Tier, seed: u64) -> Self {
        let nfiles = match tier {
            Tier::Quick => 1500,
            Tier::Thorough => 20000,
        };
        let mut r = Rng::new(mix(&[seed, 0x3434]));
        let mut corpus = Vec::new();
        while corpus.len() < nfiles {
            let spec = gen_spec(&mut r);
            if let Ok(bytes) = reference_bytes(&spec) {
                corpus.push(CorpusFile { spec, bytes });
            }
        }
        let mut sections = Vec::new();
        let mut at = 0u64;
        for (i, f) in corpus.iter().enumerate() {
            let l = f.bytes.len() as u64;
            let n = WRITE_PLANS as u64 + READ_PLANS as u64 + (l + 1) + l * 4;
            sections.push((i, at, n));
            at += n;
        }
        let npy_hdr = |dict: &str| {
            let mut b = b"\x93NUMPY\x01\x00".to_vec();
            b.extend((dict.len() as u16).to_le_bytes());
            b.extend(dict.as_bytes());
            b
        };
        let raw_specials: Vec<(Format, Vec<u8>, String)> = vec![
            (Format::Npy, vec![], "empty".to_string()),
            (Format::Npy, npy_hdr("{'descr': '<f4', 'fortran_order': False, 'shape': (4294967295,), }"), "npy shape 2^32-1".into()),
            (Format::Npy, npy_hdr("{'descr': '<f8', 'fortran_order': False, 'shape': (18446744073709551615, 2), }"), "npy shape overflow".into()),
            (Format::Npy, npy_hdr("{'descr': '<f8', 'fortran_order': True, 'shape': (0, 9223372036854775807), }"), "npy zero x huge, fortran".into()),
            (Format::Npy, npy_hdr("{'descr': '<i0', 'fortran_order': False, 'shape': (3,), }"), "npy item size 0".into()),
            (Format::Npy, npy_hdr("{'descr': 'é4', 'fortran_order': False, 'shape': (3,), }"), "npy non-ascii descr".into()),
            (Format::Npy, npy_hdr("{'descr': '<', 'fortran_order': False, 'shape': (), }"), "npy short descr".into()),
            (Format::Npy, npy_hdr("{'descr': '<b1', 'fortran_order': False, 'shape': (1,1,1,1,1,1,1,1,1,1,1,1,1,1,1,1,1,1,1,1,1,1,1,1,1,1,1,1,1,1,1,1,1,1,1,1,1,1,1,1), }"), "npy rank 40".into()),
            (Format::Npy, { let mut b = b"\x93NUMPY\x03\x00".to_vec(); b.extend(u32::MAX.to_le_bytes()); b }, "npy v3 header len 2^32-1".into()),
            (Format::SafeTensors, u64::MAX.to_le_bytes().to_vec(), "safetensors header len 2^64-1".into()),
            (Format::SafeTensors, { let h = br#"{"a":{"dtype":"F32","shape":[4611686018427387904,4],"data_offsets":[0,0]}}"#; let mut b = (h.len() as u64).to_le_bytes().to_vec(); b.extend(h); b }, "safetensors shape overflow".into()),
            (Format::SafeTensors, { let h = br#"{"a":{"dtype":"F16","shape":[1],"data_offsets":[0,2]}}"#; let mut b = (h.len() as u64).to_le_bytes().to_vec(); b.extend(h); b.extend([0, 0]); b }, "safetensors unsupported dtype".into()),
            (Format::Npz, b"PK\x05\x06\0\0\0\0\0\0\0\0\0\0\0\0\0\0\0\0\0\0".to_vec(), "npz empty archive".into()),
            (Format::Npz, b"PK\x05\x06\0\0\0\0\xff\xff\xff\xff\xff\xff\xff\xff\xff\xff\xff\xff\0\0".to_vec(), "npz lying central directory".into()),
        ];
        let mut raw_specials = raw_specials;
        // npy header dictionaries cut short at every position, with a header length field that agrees with
        // the cut (so the fixed-size reads succeed and the dictionary parser meets the end of its input
        // in the middle of every token), once bare and once with the customary trailing newline
        for dict in ["{'descr': '<i4', 'fortran_order': False, 'shape': (1,), }", "{'shape': (2, 1), 'fortran_order': True, 'descr': '|u1'}"] {
            for cut in 0..dict.len() {
                if !dict.is_char_boundary(cut) {
                    continue;
                }
                for nl in [false, true] {
                    let mut d = dict[..cut].to_string();
                    if nl {
                        d.push('\n');
                    }
                    let mut b = npy_hdr(&d);
                    b.extend([1u8, 0, 0, 0, 2, 0, 0, 0]);
                    raw_specials.push((Format::Npy, b, format!("npy dict cut at {cut}{}", if nl { " +newline" } else { "" })));
                }
            }
            // values replaced by shorter / other tokens
            for (from, to) in [("False", "Fals"), ("False", "0"), ("False", ""), ("True", "Tru"), ("True", "1"), ("True", "None"), ("(1,)", "("), ("(1,)", "(1"), ("(2, 1)", "(2,"), ("'<i4'", "'<i4"), ("'|u1'", "'")] {
                if dict.contains(from) {
                    let mut b = npy_hdr(&dict.replacen(from, to, 1));
                    b.extend([1u8, 0, 0, 0, 2, 0, 0, 0]);
                    raw_specials.push((Format::Npy, b, format!("npy dict token {from:?} -> {to:?}")));
                }
            }
        }
        // archives whose member names were not produced by this writer: other letter cases of the extension,
        // other extensions, a directory-like name — each holding a valid .npy payload next to a regular member
        {
            let spec = FileSpec {
                format: Format::Npz,
                tensors: vec![
                    TSpec { name: "a".into(), dtype: 9, base_shape: vec![2], perm: None, step: None, seed: 1 },
                    TSpec { name: "bb".into(), dtype: 3, base_shape: vec![1, 2], perm: None, step: None, seed: 2 },
                ],
            };
            if let Ok(bytes) = reference_bytes(&spec) {
                for variant in [&b".NPY"[..], b".Npy", b".npY", b".txt", b".np\0", b"/npy", b".NPy"] {
                    let mut b = bytes.clone();
                    for pos in find_all(&bytes, b"bb.npy") {
                        b[pos + 2..pos + 6].copy_from_slice(variant);
                    }
                    raw_specials.push((Format::Npz, b, format!("npz member renamed to bb{}", String::from_utf8_lossy(variant))));
                }
            }
        }
        // valid safetensors files laid out by another writer: header not padded to 8 bytes, an odd-sized
        // byte tensor in front of wider element types, so tensor data starts at every alignment
        for (dt, size) in [("F32", 4usize), ("I32", 4), ("F64", 8), ("I64", 8), ("U16", 2), ("I16", 2)] {
            for pad in 0..8usize {
                for lead in [0usize, 1, 3] {
                    let mut h = format!("{{\"a\":{{\"dtype\":\"U8\",\"shape\":[{lead}],\"data_offsets\":[0,{lead}]}},\"b\":{{\"dtype\":\"{dt}\",\"shape\":[2],\"data_offsets\":[{lead},{}]}}}}", lead + 2 * size);
                    h.push_str(&" ".repeat(pad));
                    let mut b = (h.len() as u64).to_le_bytes().to_vec();
                    b.extend(h.as_bytes());
                    b.extend(std::iter::repeat(7u8).take(lead));
                    b.extend((0..2 * size).map(|i| (i * 37 + 1) as u8));
                    raw_specials.push((Format::SafeTensors, b, format!("safetensors {dt} after {lead} bytes, header padded by {pad}")));
                }
            }
        }
        let enumerated = at + (raw_specials.len() * 2) as u64;
        SerEngine {
            corpus,
            sections,
            enumerated,
            seeded: match tier {
                Tier::Quick => 3_000_000,
                Tier::Thorough => 150_000_000,
            },
            raw_specials,
        }
    }

    fn info(&self) -> EngineInfo {
        EngineInfo {
            level: "fault_enumeration",
            rule: format!(
                "A corpus of {} files (npy / npz / safetensors; all 11 element types incl. NaN/inf/extremes; rank 0-4; empty and size-1 dims; permuted and stepped non-contiguous views; 0-3 named entries with plain, suffixed, unicode, long names) is written by the real code. Per file, enumerated: 12 writer fault plans (1-byte and 7-byte short writes, EINTR, Ok(0), crash after 0 / len/2 / len-1 bytes, error at call 0/1, flush error), 10 reader fault plans (1/3-byte short reads, EINTR, I/O error at offset 0 / len/2 / len-1, error at call, seek errors), every torn prefix (crash offset) and every byte x {{flip bit0, 00, FF, 80}}; plus hand-built hostile headers. Then seeded mixes of writer faults, multi-byte storage faults and reader faults on fresh random files. Non-trivial = at least one device or storage fault fired; distinct = hash of the explicit case.",
                self.corpus.len()
            ),
            real_components: vec!["rten_serialize::{npy, npz, safetensors} read/write/read_array".into(), "zip 8.6 (ZipWriter/ZipArchive)".into(), "safetensors 0.8".into(), "std::io::BufWriter".into()],
            stub_components: vec!["files -> simcore::devices::{SimWriter (Write+Seek), SimFile (Read+Seek)} with fault plans and operation budgets".into()],
            assumptions: vec![
                "write returning Ok must leave exactly the fault-free bytes in the sink; after Err nothing is claimed about the sink".into(),
                "a torn prefix must read as a value or an error (whether the tear is detected is counted, not judged)".into(),
                "short reads and EINTR are legal Read behaviour: the exact value (or, for EINTR, an error) must come back; after an injected I/O error an error or the exact value, never another value".into(),
                "a read needing more than 64*len+4096 device operations is reported as non-terminating".into(),
            ],
            technique: "deterministic simulation with fault injection (simulated writer, storage and reader around the real serializers; enumerated crash offsets and byte faults, seeded mixes)".into(),
            hang_secs: 30,
            expected_probes: vec![
                "fault:short_write".into(), "fault:write_eintr".into(), "fault:write_zero".into(), "fault:write_error".into(), "fault:torn_prefix".into(), "fault:byte".into(),
                "fault:short_read".into(), "fault:eintr".into(), "fault:io_error".into(), "fault:header_lie".into(), "probe:roundtrip_ok".into(), "probe:torn_detected".into(), "probe:noncontiguous_view".into(),
            ],
        }
    }

    fn num_cases(&self) -> u64 {
        self.enumerated + self.seeded
    }

    fn make_case(&self, index: u64, seed: u64) -> SerCase {
        let enumerated_files = self.sections.last().map(|(_, a, n)| a + n).unwrap_or(0);
        if index < enumerated_files {
            let (fi, first, _) = *self.sections.iter().rev().find(|(_, first, _)| *first <= index).expect("section");
            let f = &self.corpus[fi];
            let l = f.bytes.len();
            let mut k = (index - first) as usize;
            let spec = f.spec.clone();
            if k < WRITE_PLANS {
                return SerCase { spec, phase: Phase::Write(write_plan(k, l)), note: format!("write-plan {k}") };
            }
            k -= WRITE_PLANS;
            if k < READ_PLANS {
                return SerCase { spec, phase: Phase::Read(read_plan(k, l)), note: format!("read-plan {k}") };
            }
            k -= READ_PLANS;
            if k <= l {
                return SerCase { spec, phase: Phase::Stored(vec![ByteFault::Truncate(k)], ReadPlan::default()), note: format!("torn prefix {k}/{l}") };
            }
            k -= l + 1;
            let pos = k / 4;
            let fault = match k % 4 {
                0 => ByteFault::FlipBit { pos, bit: 0 },
                1 => ByteFault::SetByte { pos, val: 0 },
                2 => ByteFault::SetByte { pos, val: 0xff },
                _ => ByteFault::SetByte { pos, val: 0x80 },
            };
            return SerCase { spec, phase: Phase::Stored(vec![fault], ReadPlan::default()), note: format!("byte fault @{pos}/{l}") };
        }
        if index < self.enumerated {
            let k = (index - enumerated_files) as usize;
            let (format, bytes, note) = &self.raw_specials[k / 2];
            let mut h = String::new();
            for b in bytes {
                h.push_str(&format!("{:02x}", b));
            }
            let spec = FileSpec { format: *format, tensors: if k % 2 == 1 && *format != Format::Npy { vec![TSpec { name: "a".into(), dtype: 9, base_shape: vec![1], perm: None, step: None, seed: 1 }] } else { vec![] } };
            return SerCase { spec, phase: Phase::Raw(h), note: format!("special: {note}") };
        }
        let mut r = Rng::new(seed);
        let spec = gen_spec(&mut r);
        let approx = 200u64;
        let phase = match r.below(10) {
            0 | 1 => {
                let mut p = WritePlan { max_write: *r.pick(&[0usize, 1, 2, 7, 64]), ..Default::default() };
                if r.chance(1, 3) {
                    p.interrupt_calls = (0..r.urange(1, 3)).map(|_| r.below(10)).collect();
                }
                if r.chance(1, 4) {
                    p.zero_write_at_call = Some(r.below(6));
                }
                if r.chance(1, 3) {
                    p.crash_after_bytes = Some(r.below(approx * 3));
                }
                if r.chance(1, 5) {
                    p.error_at_call = Some(r.below(8));
                }
                p.flush_error = r.chance(1, 8);
                Phase::Write(p)
            }
            2 | 3 => {
                let mut p = ReadPlan { max_read: *r.pick(&[0usize, 1, 2, 5, 64]), ..Default::default() };
                if r.chance(1, 3) {
                    p.interrupt_calls = (0..r.urange(1, 3)).map(|_| r.below(12)).collect();
                }
                if r.chance(1, 3) {
                    p.error_at_offset = Some(r.below(approx * 3));
                }
                if r.chance(1, 6) {
                    p.error_at_call = Some(r.below(10));
                }
                if r.chance(1, 5) {
                    p.eof_at = Some(r.below(approx * 3));
                }
                if r.chance(1, 8) {
                    p.seek_error_at_call = Some(r.below(5));
                }
                Phase::Read(p)
            }
            4 | 5 => {
                // structure-aware lies: rewrite a header token of the fault-free file
                let faults = match reference_bytes(&spec) {
                    Ok(bytes) => header_lies(&bytes, &mut r),
                    Err(_) => vec![],
                };
                let plan = if r.chance(1, 4) { ReadPlan { max_read: *r.pick(&[1usize, 4]), ..Default::default() } } else { ReadPlan::default() };
                Phase::Stored(faults, plan)
            }
            _ => {
                let nf = r.urange(1, 4);
                let mut faults = Vec::new();
                for _ in 0..nf {
                    let pos = r.usize_below(approx as usize * 3);
                    faults.push(match r.below(7) {
                        0 => ByteFault::Truncate(pos),
                        1 => ByteFault::FlipBit { pos, bit: r.below(8) as u8 },
                        2 => ByteFault::SetByte { pos, val: *r.pick(&[0u8, 0xff, 0x7f, 0x80, b'\'', b'(', b'9', b'{']) },
                        3 => ByteFault::ZeroRange { start: pos & !63, len: 64 },
                        4 => ByteFault::DupBlock { start: pos, len: r.urange(1, 40), at: r.usize_below(approx as usize * 3) },
                        5 => ByteFault::Insert { pos, bytes: (0..r.urange(1, 8)).map(|_| r.below(256) as u8).collect() },
                        _ => ByteFault::Replace { pos, len: r.urange(1, 8), bytes: b"99999999999999999999"[..r.urange(1, 20)].to_vec() },
                    });
                }
                let plan = if r.chance(1, 3) { ReadPlan { max_read: *r.pick(&[1usize, 3, 9]), ..Default::default() } } else { ReadPlan::default() };
                Phase::Stored(faults, plan)
            }
        };
        SerCase { spec, phase, note: "seeded".into() }
    }

    fn run_case(&self, case: &SerCase, ctx: &mut Ctx) -> Outcome {
        let spec = &case.spec;
        let format = spec.format;
        let fname = fmt_name(format);
        let mut trace: Vec<u64> = Vec::new();
        let mut steps = 0u64;
        let nontrivial;
        if spec.tensors.iter().any(|t| t.dtype > 10 || t.base_shape.len() > 6 || t.base_shape.iter().product::<usize>() > 4096) || (format == Format::Npy && spec.tensors.len() != 1 && !matches!(case.phase, Phase::Raw(_))) {
            return Outcome { executions: 1, ..Default::default() };
        }
        if spec.tensors.iter().any(|t| t.perm.is_some() || t.step.is_some()) {
            ctx.count("probe:noncontiguous_view");
        }
        let single: Option<String> = if format != Format::Npy && !spec.tensors.is_empty() && fnv64(case.note.as_bytes()) % 3 == 0 { Some(spec.tensors[0].name.clone()) } else { None };

        if let Phase::Raw(h) = &case.phase {
            let bytes: Vec<u8> = (0..h.len() / 2).map(|i| u8::from_str_radix(&h[2 * i..2 * i + 2], 16).unwrap_or(0)).collect();
            let single = spec.tensors.first().map(|t| t.name.clone());
            let (r, st) = self.read_checked(format, Rc::new(bytes), &ReadPlan::default(), single.as_deref(), ctx);
            steps += st.ops();
            let violation = match r {
                Err(p) => Some(Violation::new(panic_key(format, "read", &p), format!("reading hostile bytes panicked: {} at {} [{}]", p.message, p.location, case.note))),
                Ok(_) if st.budget_exceeded => Some(Violation::new(format!("C34/nonterminating/{fname}/read"), format!("read exceeded its operation budget [{}]", case.note))),
                Ok(_) => None,
            };
            return Outcome { violation, nontrivial: true, steps, trace_hash: 1, executions: 1, ..Default::default() };
        }

        // fault-free reference write
        let reference = match reference_bytes(spec) {
            Ok(b) => b,
            Err(e) if e.starts_with("panic:") => {
                return Outcome { violation: Some(Violation::new(format!("C34/panic/{fname}/write"), format!("fault-free write panicked: {e}"))), nontrivial: true, executions: 1, ..Default::default() };
            }
            Err(_) => {
                // e.g. an empty or duplicate entry name: a clean error is a legal outcome
                ctx.count("probe:write_rejected_spec");
                return Outcome { executions: 1, ..Default::default() };
            }
        };
        let expected = expected_map(spec);
        let expected_single = single.as_ref().map(|n| {
            let mut m = BTreeMap::new();
            let key = entry_name(format, n);
            if let Some(v) = expected.get(&key) {
                m.insert(key, v.clone());
            }
            m
        });
        let want = expected_single.as_ref().unwrap_or(&expected);
        // duplicate names make "the" expected value ambiguous: only robustness is judged then
        let names: Vec<String> = spec.tensors.iter().map(|t| entry_name(format, &t.name)).collect();
        let dup_names = {
            let mut s = names.clone();
            s.sort();
            s.dedup();
            s.len() != names.len()
        };

        let mut violation: Option<Violation> = None;
        match &case.phase {
            Phase::Raw(_) => unreachable!(),
            Phase::Write(plan) => {
                let (w, sink, stats) = SimWriter::new(plan.clone());
                let w = w.with_budget(64 * reference.len() as u64 + 4096);
                let r = catch(move || do_write(spec, w).map_err(|e| format!("{:?}", e.kind())));
                let st = stats.borrow().clone();
                steps += st.ops();
                ctx.add("fault:short_write", st.short_writes);
                ctx.add("fault:write_eintr", st.interrupts_fired);
                ctx.add("fault:write_zero", st.zero_writes);
                ctx.add("fault:write_error", st.errors_fired);
                nontrivial = st.short_writes + st.interrupts_fired + st.zero_writes + st.errors_fired > 0;
                match r {
                    Err(p) => {
                        // The statement promises a round trip and robust *reads*. A panic while
                        // writing to a device that has already failed (error, Ok(0), crash) is
                        // counted, not judged; with only short writes / EINTR (legal Write
                        // behaviour) it is a failed round trip.
                        if st.errors_fired + st.zero_writes > 0 {
                            ctx.count("probe:write_panicked_after_device_failure");
                            trace.push(fnv64(panic_site(&p).as_bytes()));
                        } else {
                            violation = Some(Violation::new(panic_key(format, "write", &p), format!("write panicked under legal device behaviour {:?}: {} at {}", plan, p.message, p.location)));
                        }
                    }
                    Ok(res) => {
                        trace.push(fnv64(format!("{res:?}").as_bytes()));
                        if st.budget_exceeded {
                            violation = Some(Violation::new(format!("C34/nonterminating/{fname}/write"), format!("write needed more than {} device operations under {:?}", 64 * reference.len() + 4096, plan)));
                        } else if res.is_ok() {
                            ctx.count("probe:write_ok_under_faults");
                            if *sink.borrow() != reference {
                                violation = Some(Violation::new(
                                    format!("C34/write-ok-but-wrong-bytes/{fname}"),
                                    format!("write returned Ok under {:?} but the sink holds {} bytes that differ from the {} fault-free bytes", plan, sink.borrow().len(), reference.len()),
                                ));
                            }
                        } else {
                            ctx.count("probe:write_err_under_faults");
                        }
                    }
                }
            }
            Phase::Read(plan) => {
                let (r, st) = self.read_checked(format, Rc::new(reference.clone()), plan, single.as_deref(), ctx);
                steps += st.ops();
                nontrivial = st.short_reads + st.interrupts_fired + st.errors_fired + st.eof_fired > 0;
                match r {
                    Err(p) => violation = Some(Violation::new(panic_key(format, "read", &p), format!("read panicked under device faults {:?}: {} at {}", plan, p.message, p.location))),
                    Ok(res) => {
                        trace.push(fnv64(format!("{:?}", res.as_ref().map(|m| m.len())).as_bytes()));
                        let hard = st.errors_fired + st.eof_fired > 0 || plan.eof_at.map(|e| (e as usize) < reference.len()).unwrap_or(false);
                        if st.budget_exceeded {
                            violation = Some(Violation::new(format!("C34/nonterminating/{fname}/read"), format!("read exceeded its operation budget under {:?}", plan)));
                        } else if !dup_names {
                            match (&res, hard, st.interrupts_fired > 0) {
                                (Ok(m), _, _) if m == want => ctx.count("probe:roundtrip_ok"),
                                (Ok(m), false, _) => {
                                    violation = Some(Violation::new(format!("C34/roundtrip-mismatch/{fname}"), format!("read back {:?}, wrote {:?} (device plan {:?})", summarize(m), summarize(want), plan)));
                                }
                                (Ok(m), true, _) => {
                                    if plan.eof_at.is_none() {
                                        violation = Some(Violation::new(format!("C34/wrong-value-after-io-error/{fname}"), format!("after an injected I/O error the read returned a different value {:?} (wrote {:?})", summarize(m), summarize(want))));
                                    }
                                }
                                (Err(_), false, true) => ctx.count("probe:eintr_surfaced_as_error"),
                                (Err(e), false, false) => {
                                    violation = Some(Violation::new(format!("C34/roundtrip-error/{fname}"), format!("reading a file this crate wrote failed with {e} (device plan {:?}; short reads are legal Read behaviour)", plan)));
                                }
                                (Err(_), true, _) => ctx.count("probe:read_err_after_io_fault"),
                            }
                        }
                    }
                }
            }
            Phase::Stored(faults, plan) => {
                let bytes = apply_faults(&reference, faults);
                for f in faults {
                    match f {
                        ByteFault::Truncate(_) => ctx.count("fault:torn_prefix"),
                        ByteFault::FlipBit { .. } | ByteFault::SetByte { .. } => ctx.count("fault:byte"),
                        ByteFault::Replace { .. } => ctx.count("fault:header_lie"),
                        _ => ctx.count("fault:block"),
                    }
                }
                let changed = bytes != reference;
                nontrivial = changed;
                let (r, st) = self.read_checked(format, Rc::new(bytes), plan, single.as_deref(), ctx);
                steps += st.ops();
                match r {
                    Err(p) => violation = Some(Violation::new(panic_key(format, "read", &p), format!("reading a damaged file panicked ({:?}): {} at {}", faults, p.message, p.location))),
                    Ok(res) => {
                        trace.push(fnv64(format!("{:?}", res.as_ref().map(|m| m.len())).as_bytes()));
                        if st.budget_exceeded {
                            violation = Some(Violation::new(format!("C34/nonterminating/{fname}/read"), format!("read of a damaged file exceeded its operation budget ({:?})", faults)));
                        } else if !changed && !dup_names {
                            match &res {
                                Ok(m) if m == want => ctx.count("probe:roundtrip_ok"),
                                Ok(m) => violation = Some(Violation::new(format!("C34/roundtrip-mismatch/{fname}"), format!("read back {:?}, wrote {:?}", summarize(m), summarize(want)))),
                                Err(e) => violation = Some(Violation::new(format!("C34/roundtrip-error/{fname}"), format!("reading a file this crate wrote failed with {e}"))),
                            }
                        } else if matches!(faults.as_slice(), [ByteFault::Truncate(_)]) {
                            match &res {
                                Err(_) => ctx.count("probe:torn_detected"),
                                Ok(m) if m == want => ctx.count("probe:torn_but_complete"),
                                Ok(_) => ctx.count("probe:torn_read_as_other_value"),
                            }
                        }
                    }
                }
            }
        }
        Outcome { violation, nontrivial, steps: steps.max(1), trace_hash: mix(&trace), executions: 2, ..Default::default() }
    }

    fn shrink(&self, case: &SerCase) -> Vec<SerCase> {
        let mut out = Vec::new();
        // fewer tensors, simpler tensors
        if case.spec.format != Format::Npy {
            for i in 0..case.spec.tensors.len() {
                let mut c = case.clone();
                c.spec.tensors.remove(i);
                out.push(c);
            }
        }
        for (i, t) in case.spec.tensors.iter().enumerate() {
            if t.perm.is_some() {
                let mut c = case.clone();
                c.spec.tensors[i].perm = None;
                out.push(c);
            }
            if t.step.is_some() {
                let mut c = case.clone();
                c.spec.tensors[i].step = None;
                out.push(c);
            }
            for d in 0..t.base_shape.len() {
                if t.base_shape[d] > 1 {
                    let mut c = case.clone();
                    c.spec.tensors[i].base_shape[d] -= 1;
                    out.push(c);
                }
            }
            if !t.base_shape.is_empty() && t.perm.is_none() && t.step.is_none() {
                let mut c = case.clone();
                c.spec.tensors[i].base_shape.pop();
                out.push(c);
            }
            if t.name != "a" {
                let mut c = case.clone();
                c.spec.tensors[i].name = "a".into();
                out.push(c);
            }
        }
        match &case.phase {
            Phase::Stored(faults, plan) => {
                for i in 0..faults.len() {
                    if faults.len() > 1 {
                        let mut f = faults.clone();
                        f.remove(i);
                        out.push(SerCase { phase: Phase::Stored(f, plan.clone()), ..case.clone() });
                    }
                }
                if *plan != ReadPlan::default() {
                    out.push(SerCase { phase: Phase::Stored(faults.clone(), ReadPlan::default()), ..case.clone() });
                }
                // materialise as raw bytes and shrink those
                if let Ok(reference) = reference_bytes(&case.spec) {
                    let bytes = apply_faults(&reference, faults);
                    let mut h = String::new();
                    for b in &bytes {
                        h.push_str(&format!("{:02x}", b));
                    }
                    out.push(SerCase { phase: Phase::Raw(h), ..case.clone() });
                }
            }
            Phase::Raw(h) => {
                let n = h.len() / 2;
                let mut chunk = n / 2;
                while chunk >= 1 {
                    let mut start = 0;
                    while start < n {
                        let end = (start + chunk).min(n);
                        let mut s = h[..2 * start].to_string();
                        s.push_str(&h[2 * end..]);
                        out.push(SerCase { phase: Phase::Raw(s), ..case.clone() });
                        start += chunk;
                        if n > 4096 && out.len() >= 96 {
                            return out; // large inputs: coarsest candidates only; the minimiser asks again
                        }
                    }
                    if chunk == 1 {
                        break;
                    }
                    chunk /= 2;
                }
            }
            Phase::Read(p) => {
                if !p.interrupt_calls.is_empty() {
                    let mut q = p.clone();
                    q.interrupt_calls.clear();
                    out.push(SerCase { phase: Phase::Read(q), ..case.clone() });
                }
                if p.max_read != 0 {
                    let mut q = p.clone();
                    q.max_read = 0;
                    out.push(SerCase { phase: Phase::Read(q), ..case.clone() });
                }
                for k in 0..4 {
                    let mut q = p.clone();
                    match k {
                        0 => q.error_at_offset = None,
                        1 => q.error_at_call = None,
                        2 => q.eof_at = None,
                        _ => q.seek_error_at_call = None,
                    }
                    if q != *p {
                        out.push(SerCase { phase: Phase::Read(q), ..case.clone() });
                    }
                }
            }
            Phase::Write(p) => {
                for k in 0..6 {
                    let mut q = p.clone();
                    match k {
                        0 => q.interrupt_calls.clear(),
                        1 => q.max_write = 0,
                        2 => q.zero_write_at_call = None,
                        3 => q.crash_after_bytes = None,
                        4 => q.error_at_call = None,
                        _ => q.flush_error = false,
                    }
                    if q != *p {
                        out.push(SerCase { phase: Phase::Write(q), ..case.clone() });
                    }
                }
            }
        }
        out
    }
}

fn summarize(m: &BTreeMap<String, Canon>) -> Vec<(String, &'static str, Vec<usize>, u64)> {
    m.iter().map(|(k, (d, s, b))| (k.clone(), *DTYPES.get(*d).unwrap_or(&"?"), s.clone(), fnv64(b))).collect()
}

fn main() {
    driver::main::<SerEngine>();
}
