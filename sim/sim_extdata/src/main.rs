//! sim_extdata — C21: external tensor data cannot escape the model directory or
//! its file bounds.
//!
//! The simulated disk is a fresh sandbox directory per case (on tmpfs):
//!
//! ```text
//! root/outer.data            canary
//! root/abs.data              canary (referenced by absolute path)
//! root/m/model.onnx          the model
//! root/m/<data files>        what the case puts there (files, dirs, symlinks)
//! root/m/sub/inner.data      canary
//! ```
//!
//! The real `load_file` (FileLoader), `load_mmap` (MmapLoader) and
//! `external_data` + `load` (MemLoader) run on it.

use onnxenc::{dtype, Graph, Model as OModel, Node, Tensor as OTensor, TensorData, ValueInfo};
use rten::{ModelOptions, NodeId, Value, ValueOrView};
use rten_tensor::prelude::*;
use serde::{Deserialize, Serialize};
use simcore::catch::{catch, panic_site};
use simcore::driver::{self, Ctx, Engine, EngineInfo, Outcome, Tier, Violation};
use simcore::rng::{fnv64, mix, Rng};
use std::collections::BTreeMap;
use std::path::PathBuf;

const CANARY: &[u8] = b"CANARY!!CANARY!!CANARY!!CANARY!!CANARY!!CANARY!!CANARY!!CANARY!!";

#[derive(Clone, Debug, Serialize, Deserialize, PartialEq)]
pub struct ExtTensor {
    pub name: String,
    /// true = FLOAT (4-byte elements), false = UINT8
    pub float: bool,
    /// number of elements declared in `dims`
    pub elems: i64,
    pub location: String,
    pub offset: Option<String>,
    pub length: Option<String>,
}

#[derive(Clone, Debug, Serialize, Deserialize, PartialEq)]
pub enum Entry {
    /// A regular file with `len` bytes derived from `seed`.
    File { len: usize, seed: u64 },
    Dir,
    /// Symlink to a path relative to the model directory.
    Symlink(String),
}

#[derive(Clone, Debug, Serialize, Deserialize, PartialEq)]
pub enum Loader {
    File,
    Mmap,
    Mem,
}

#[derive(Clone, Debug, Serialize, Deserialize)]
pub struct ExtCase {
    pub tensors: Vec<ExtTensor>,
    /// Entries created inside the model directory: (name, entry). For the
    /// in-memory loader these are the `(path, buffer)` pairs handed to
    /// `ModelOptions::external_data`.
    pub disk: Vec<(String, Entry)>,
    pub loader: Loader,
    pub note: String,
}

fn file_bytes(len: usize, seed: u64) -> Vec<u8> {
    // bytes >= 0x80 only: never looks like the (ASCII) canary
    let mut r = Rng::new(seed);
    (0..len).map(|_| 0x80 | (r.next_u64() as u8)).collect()
}

/// Reference rule from the statement: a single plain filename with a
/// recognised data extension.
/// `std::path` (and POSIX) treat `name/` as the single component `name`; a
/// trailing separator is another spelling of the same in-directory entry, not
/// an escape, and is not judged.
fn normalise(location: &str) -> &str {
    let t = location.trim_end_matches('/');
    if t.is_empty() { location } else { t }
}

fn plain_recognised(location: &str) -> bool {
    let location = normalise(location);
    if location.is_empty() || location == "." || location == ".." {
        return false;
    }
    if location.contains('/') || location.contains('\0') {
        return false;
    }
    match location.rfind('.') {
        Some(i) if i > 0 => {
            let ext = &location[i + 1..];
            ext.starts_with("data") || ext.starts_with("onnx_data")
        }
        _ => false,
    }
}

struct ExtEngine {
    sandbox: PathBuf,
    locations: Vec<String>,
    ranges: Vec<(Option<String>, Option<String>)>,
    seeded: u64,
}

fn model_for(tensors: &[ExtTensor]) -> Vec<u8> {
    let mut g = Graph { name: "ext".into(), ..Default::default() };
    for (i, t) in tensors.iter().enumerate() {
        g.initializers.push(OTensor {
            name: t.name.clone(),
            dims: vec![t.elems],
            dtype: if t.float { dtype::FLOAT } else { dtype::UINT8 },
            data: TensorData::External { location: t.location.clone(), offset: t.offset.clone(), length: t.length.clone(), extra: vec![] },
        });
        let out = format!("out{i}");
        g.nodes.push(Node::new("Identity", &[t.name.as_str()], &[out.as_str()]));
        g.outputs.push(ValueInfo::untyped(&out));
    }
    OModel::new(g).encode()
}

fn value_bytes(v: &Value) -> Option<Vec<u8>> {
    match v {
        Value::UInt8Tensor(t) => Some(t.iter().copied().collect()),
        Value::FloatTensor(t) => Some(t.iter().flat_map(|x| x.to_le_bytes()).collect()),
        Value::Int8Tensor(t) => Some(t.iter().map(|x| *x as u8).collect()),
        Value::Int32Tensor(t) => Some(t.iter().flat_map(|x| x.to_le_bytes()).collect()),
        _ => None,
    }
}

fn contains_canary(b: &[u8]) -> bool {
    b.windows(8).any(|w| w == &CANARY[..8])
}

impl Engine for ExtEngine {
    type Case = ExtCase;

    fn name() -> &'static str {
        "sim_extdata"
    }
    fn engine_id() -> u64 {
        21
    }
    fn properties() -> Vec<&'static str> {
        vec!["C21"]
    }

    fn new(_p: &str, tier: Tier, _seed: u64) -> Self {
        let sandbox = if std::path::Path::new("/dev/shm").is_dir() { PathBuf::from("/dev/shm/verif-sim/ext") } else { std::env::temp_dir().join("verif-sim-ext") };
        let mut locations: Vec<String> = Vec::new();
        let names = ["w", "model.onnx", "a b", "ünï", ".", "..", "", "w.data/..", "x"];
        let exts = [".data", ".onnx_data", ".onnx_data_3", ".data2", ".bin", "", ".DATA", ".dat", ".onnx", ".data.bin"];
        for n in names {
            for e in exts {
                locations.push(format!("{n}{e}"));
            }
        }
        for l in [
            "../outer.data", "./w.data", "sub/inner.data", "sub/../w.data", "/abs.data", "//w.data", "..\\outer.data", "C:\\w.data", "w.data/", "w.data/.", "w.data\0", "\0", "../m/w.data", "m/w.data",
            "link.data", "dangling.data", "dirlink.data", "dir.data", ".data", "..data", "...data", "w.data/../../outer.data", "~/w.data", "$HOME/w.data", "w.data;rm", "%2e%2e/outer.data",
        ] {
            locations.push(l.to_string());
        }
        locations.push(format!("{}.data", "n".repeat(300)));
        locations.push(format!("{}/w.data", "d/".repeat(40)));
        let s = |x: &str| Some(x.to_string());
        let ranges = vec![
            (s("0"), s("16")),
            (s("0"), s("64")),
            (s("48"), s("16")),
            (s("49"), s("16")),
            (s("64"), s("0")),
            (s("65"), s("0")),
            (s("60"), s("16")),
            (s("0"), s("65")),
            (s("18446744073709551615"), s("16")),
            (s("16"), s("18446744073709551615")),
            (s("18446744073709551600"), s("32")),
            (s("9223372036854775807"), s("9223372036854775807")),
            (s("9223372036854775808"), s("16")),
            (s("0"), s("9223372036854775807")),
            (s("0"), s("1125899906842624")),
            (s("0"), s("4294967296")),
            (s("-1"), s("16")),
            (s("0"), s("-16")),
            (s("1e1"), s("16")),
            (s(""), s("16")),
            (None, s("16")),
            (s("0"), None),
            (s("18446744073709551616"), s("16")),
            (s(" 0"), s("16 ")),
        ];
        ExtEngine {
            sandbox,
            locations,
            ranges,
            seeded: match tier {
                Tier::Quick => 120_000,
                Tier::Thorough => 6_000_000,
            },
        }
    }

    fn info(&self) -> EngineInfo {
        EngineInfo {
            level: "fault_enumeration",
            rule: format!(
                "Enumerated: {} location strings (plain names x extensions incl. data, onnx_data, onnx_data_3, data2, bin, none, upper case; '.', '..', empty; '../', './', 'sub/', absolute, '//', back-slashes, drive prefixes, trailing slash, NUL, unicode, 300-char names, 40-level paths, symlink / dangling symlink / directory entries) x 3 loaders (load_file/FileLoader, load_mmap/MmapLoader, external_data+load/MemLoader), and {} offset/length pairs (inside, at and past the end of a 64-byte file, sums that wrap at 2^64, values >= 2^63, 2^50 and 2^32 lengths, negative, non-numeric, missing) x 3 loaders x {{UINT8, FLOAT}}. Then seeded cases with 1-3 external tensors sharing or not sharing files, random disk states (missing, short, empty, directory, symlink to a file outside, dangling symlink) and canary files outside the model directory, in a sub-directory and at an absolute path. Non-trivial = the location is not a plain in-directory name, or the range is not inside the file, or the disk entry is not a regular file; distinct = hash of the explicit case.",
                self.locations.len(),
                self.ranges.len()
            ),
            real_components: vec!["rten::ModelOptions::{load_file, load_mmap, external_data + load}".into(), "FileLoader, MmapLoader, MemLoader, is_allowed_external_data_path, ONNX loader (external_data_location, tensor_from_external_data)".into(), "the real file system (tmpfs sandbox)".into()],
            stub_components: vec!["none".into()],
            assumptions: vec![
                "a symlink entry with an allowed name inside the model directory is followed by the implementation; the statement says 'a file directly inside the directory', which such an entry is (its target's bytes are the expected data)".into(),
                "'recognised data extension' = the text after the last '.' starts with 'data' or 'onnx_data' (the code's own rule; the statement does not enumerate extensions)".into(),
                "truncating a data file between two tensor loads of one model load cannot be interleaved without a hook inside the loader and is not simulated".into(),
            ],
            technique: "deterministic simulation with fault injection (sandbox directory as simulated disk with canary files; enumerated location grammar and offset/length pairs; seeded disk states)".into(),
            hang_secs: 30,
            expected_probes: vec![
                "probe:valid_loaded".into(), "probe:load_err".into(), "probe:loader_file".into(), "probe:loader_mmap".into(), "probe:loader_mem".into(), "fault:traversal_location".into(), "fault:range_outside_file".into(),
                "fault:disk_missing".into(), "fault:disk_dir".into(), "fault:disk_symlink".into(), "probe:symlink_followed".into(), "fault:huge_length".into(),
            ],
        }
    }

    fn num_cases(&self) -> u64 {
        (self.locations.len() * 3 + self.ranges.len() * 6) as u64 + self.seeded
    }

    fn make_case(&self, index: u64, seed: u64) -> ExtCase {
        let loaders = [Loader::File, Loader::Mmap, Loader::Mem];
        let standard_disk = || -> Vec<(String, Entry)> {
            vec![
                ("w.data".into(), Entry::File { len: 64, seed: 11 }),
                ("w.onnx_data".into(), Entry::File { len: 64, seed: 12 }),
                ("w.onnx_data_3".into(), Entry::File { len: 64, seed: 13 }),
                ("w.data2".into(), Entry::File { len: 64, seed: 14 }),
                ("w.bin".into(), Entry::File { len: 64, seed: 15 }),
                ("w".into(), Entry::File { len: 64, seed: 16 }),
                ("a b.data".into(), Entry::File { len: 64, seed: 17 }),
                ("ünï.data".into(), Entry::File { len: 64, seed: 18 }),
                ("model.onnx.data".into(), Entry::File { len: 64, seed: 19 }),
                ("link.data".into(), Entry::Symlink("../target.bin".into())),
                ("dangling.data".into(), Entry::Symlink("nowhere.data".into())),
                ("dirlink.data".into(), Entry::Symlink("sub".into())),
                ("dir.data".into(), Entry::Dir),
                ("..data".into(), Entry::File { len: 64, seed: 20 }),
                ("C:\\w.data".into(), Entry::File { len: 64, seed: 21 }),
                ("..\\outer.data".into(), Entry::File { len: 64, seed: 22 }),
            ]
        };
        let nloc = self.locations.len() as u64 * 3;
        if index < nloc {
            let loc = &self.locations[(index / 3) as usize];
            let loader = loaders[(index % 3) as usize].clone();
            return ExtCase {
                tensors: vec![ExtTensor { name: "ext0".into(), float: false, elems: 16, location: loc.clone(), offset: Some("0".into()), length: Some("16".into()) }],
                disk: standard_disk(),
                loader,
                note: format!("location {:?}", loc),
            };
        }
        let nrange = self.ranges.len() as u64 * 6;
        if index < nloc + nrange {
            let k = (index - nloc) as usize;
            let (off, len) = self.ranges[k / 6].clone();
            let loader = loaders[k % 3].clone();
            let float = (k / 3) % 2 == 1;
            let bytes: i64 = len.as_deref().and_then(|l| l.trim().parse::<i64>().ok()).unwrap_or(16).clamp(0, 1 << 20);
            return ExtCase {
                tensors: vec![ExtTensor { name: "ext0".into(), float, elems: if float { bytes / 4 } else { bytes }, location: "w.data".into(), offset: off.clone(), length: len.clone() }],
                disk: standard_disk(),
                loader,
                note: format!("range offset={:?} length={:?}", off, len),
            };
        }
        let mut r = Rng::new(seed);
        let loader = loaders[r.usize_below(3)].clone();
        let nfiles = r.urange(1, 3);
        let mut disk: Vec<(String, Entry)> = Vec::new();
        let fnames = ["a.data", "b.onnx_data", "c.data", "model.onnx_data_1"];
        for i in 0..nfiles {
            let entry = match r.below(20) {
                0 => Entry::Dir,
                1 => Entry::Symlink("../target.bin".into()),
                2 => Entry::Symlink("../outer.data".into()),
                3 => Entry::Symlink("missing".into()),
                4 => Entry::File { len: 0, seed: r.next_u64() },
                _ => Entry::File { len: r.urange(1, 200), seed: r.next_u64() },
            };
            disk.push((fnames[i].to_string(), entry));
        }
        let nt = r.urange(1, 3);
        let mut tensors = Vec::new();
        for i in 0..nt {
            let float = r.chance(1, 3);
            let (fname, entry) = if r.chance(1, 12) { ("missing.data".to_string(), Entry::File { len: 0, seed: 0 }) } else { disk[r.usize_below(disk.len())].clone() };
            let flen = match entry {
                Entry::File { len, .. } => len as i64,
                _ => 64,
            };
            let location = match r.below(24) {
                0 => format!("../{fname}"),
                1 => format!("./{fname}"),
                2 => "../outer.data".to_string(),
                3 => "sub/inner.data".to_string(),
                4 => self.sandbox.join("abs.data").display().to_string(),
                5 => format!("{fname}/"),
                _ => fname.clone(),
            };
            let (off, len): (i128, i128) = match r.below(20) {
                0 => (r.range(0, flen.max(1)) as i128, flen as i128),
                1 => (flen as i128, 1),
                2 => (u64::MAX as i128 - r.range(0, 20) as i128, r.range(1, 40) as i128),
                3 => (0, 1i128 << r.range(31, 62)),
                4 => (1i128 << 63, 8),
                _ => {
                    let o = r.range(0, flen.max(1));
                    (o as i128, r.range(0, (flen - o).max(0)) as i128)
                }
            };
            let elems = (if float { len / 4 } else { len }).clamp(0, 1 << 20) as i64;
            tensors.push(ExtTensor { name: format!("ext{i}"), float, elems, location, offset: Some(off.to_string()), length: Some(len.to_string()) });
        }
        ExtCase { tensors, disk, loader, note: "seeded".into() }
    }

    fn run_case(&self, case: &ExtCase, ctx: &mut Ctx) -> Outcome {
        let root = self.sandbox.join(format!("p{}", std::process::id()));
        let _ = std::fs::remove_dir_all(&root);
        let mdir = root.join("m");
        if std::fs::create_dir_all(mdir.join("sub")).is_err() {
            driver::harness_error("cannot create the sandbox directory");
        }
        let _ = std::fs::write(root.join("outer.data"), CANARY);
        let _ = std::fs::write(self.sandbox.join("abs.data"), CANARY);
        let _ = std::fs::write(root.join("abs.data"), CANARY);
        let _ = std::fs::write(mdir.join("sub").join("inner.data"), CANARY);
        let target = file_bytes(64, 99);
        let _ = std::fs::write(root.join("target.bin"), &target);

        // The reference model of the disk: name -> bytes obtainable through that name.
        let mut readable: BTreeMap<String, Vec<u8>> = BTreeMap::new();
        let mut nontrivial = false;
        for (name, entry) in &case.disk {
            if name.contains('/') || name.contains('\0') || name.is_empty() || name == "." || name == ".." {
                continue;
            }
            let path = mdir.join(name);
            match entry {
                Entry::File { len, seed } => {
                    let b = file_bytes(*len, *seed);
                    if std::fs::write(&path, &b).is_ok() {
                        readable.insert(name.clone(), b);
                    }
                }
                Entry::Dir => {
                    let _ = std::fs::create_dir_all(&path);
                }
                Entry::Symlink(t) => {
                    let _ = std::os::unix::fs::symlink(t, &path);
                    if case.loader != Loader::Mem {
                        if let Ok(b) = std::fs::read(&path) {
                            readable.insert(name.clone(), b);
                        }
                    }
                }
            }
        }
        let bytes = model_for(&case.tensors);
        let model_path = mdir.join("model.onnx");
        let _ = std::fs::write(&model_path, &bytes);

        for t in &case.tensors {
            if !plain_recognised(&t.location) {
                ctx.count("fault:traversal_location");
                nontrivial = true;
            }
            let off = t.offset.as_deref().and_then(|s| s.parse::<u64>().ok());
            let len = t.length.as_deref().and_then(|s| s.parse::<u64>().ok());
            let flen = readable.get(normalise(&t.location)).map(|b| b.len() as u64);
            match (off, len, flen) {
                (Some(o), Some(l), Some(f)) if o.checked_add(l).map(|e| e <= f).unwrap_or(false) => {}
                _ => {
                    ctx.count("fault:range_outside_file");
                    nontrivial = true;
                }
            }
            if len.map(|l| l >= 1 << 31).unwrap_or(false) {
                ctx.count("fault:huge_length");
            }
            match case.disk.iter().find(|(n, _)| *n == t.location).map(|(_, e)| e) {
                None => ctx.count("fault:disk_missing"),
                Some(Entry::Dir) => ctx.count("fault:disk_dir"),
                Some(Entry::Symlink(_)) => ctx.count("fault:disk_symlink"),
                _ => {}
            }
        }

        let mut opts = ModelOptions::with_all_ops();
        let loaded = match case.loader {
            Loader::File => {
                ctx.count("probe:loader_file");
                catch(|| opts.load_file(&model_path))
            }
            Loader::Mmap => {
                ctx.count("probe:loader_mmap");
                catch(|| unsafe { opts.load_mmap(&model_path) })
            }
            Loader::Mem => {
                ctx.count("probe:loader_mem");
                for (name, entry) in &case.disk {
                    if let Entry::File { len, seed } = entry {
                        opts.external_data(name, file_bytes(*len, *seed));
                    }
                }
                // buffers under disallowed names too: they must never be reachable
                opts.external_data("../outer.data", CANARY.to_vec());
                opts.external_data("sub/inner.data", CANARY.to_vec());
                opts.external_data(&self.sandbox.join("abs.data").display().to_string(), CANARY.to_vec());
                catch(|| opts.load(bytes.clone()))
            }
        };
        let mut trace = vec![fnv64(&bytes)];
        let mut violation = None;
        match loaded {
            Err(p) => {
                violation = Some(Violation::new(
                    format!("C21/panic/{:?}/{}", case.loader, panic_site(&p)),
                    format!("loading a model with external data panicked: {} at {} [{}; tensors {:?}]", p.message, p.location, case.note, case.tensors),
                ));
            }
            Ok(Err(_)) => {
                ctx.count("probe:load_err");
                trace.push(0xE);
            }
            Ok(Ok(model)) => {
                trace.push(1);
                // Which bytes did each external tensor get?
                for t in &case.tensors {
                    let Some(id) = model.find_node(&t.name) else { continue };
                    let ids: Vec<NodeId> = vec![id];
                    let inputs: Vec<(NodeId, ValueOrView)> = Vec::new();
                    let got = match catch(|| model.run(inputs, &ids, None)) {
                        Ok(Ok(mut v)) if v.len() == 1 => value_bytes(&v.remove(0)),
                        _ => None,
                    };
                    let Some(got) = got else { continue };
                    trace.push(fnv64(&got));
                    let via_symlink = matches!(case.disk.iter().find(|(n, _)| n == normalise(&t.location)), Some((_, Entry::Symlink(_))));
                    if contains_canary(&got) && !via_symlink {
                        violation = Some(Violation::new(
                            format!("C21/canary-read/{:?}", case.loader),
                            format!("tensor {} (location {:?}, offset {:?}, length {:?}) received bytes of a file outside the model directory", t.name, t.location, t.offset, t.length),
                        ));
                        break;
                    }
                    if !plain_recognised(&t.location) {
                        violation = Some(Violation::new(
                            format!("C21/disallowed-location-accepted/{:?}", case.loader),
                            format!("tensor {} loaded {} bytes from location {:?}, which is not a single plain filename with a recognised data extension", t.name, got.len(), t.location),
                        ));
                        break;
                    }
                    let off = t.offset.as_deref().and_then(|s| s.parse::<u64>().ok());
                    let len = t.length.as_deref().and_then(|s| s.parse::<u64>().ok());
                    let file = readable.get(normalise(&t.location));
                    let expected = match (off, len, file) {
                        (Some(o), Some(l), Some(f)) => o.checked_add(l).and_then(|e| if e <= f.len() as u64 { Some(f[o as usize..e as usize].to_vec()) } else { None }),
                        _ => None,
                    };
                    match expected {
                        Some(e) if e == got => {
                            ctx.count("probe:valid_loaded");
                            if via_symlink {
                                ctx.count("probe:symlink_followed");
                            }
                        }
                        Some(e) => {
                            violation = Some(Violation::new(
                                format!("C21/wrong-bytes/{:?}", case.loader),
                                format!("tensor {} (location {:?}, offset {:?}, length {:?}) holds {} bytes that are not file[offset..offset+length] ({} bytes expected)", t.name, t.location, t.offset, t.length, got.len(), e.len()),
                            ));
                            break;
                        }
                        None => {
                            violation = Some(Violation::new(
                                format!("C21/out-of-range-accepted/{:?}", case.loader),
                                format!("tensor {} loaded {} bytes although offset {:?} + length {:?} is not a byte range inside {:?} ({:?} bytes)", t.name, got.len(), t.offset, t.length, t.location, file.map(|f| f.len())),
                            ));
                            break;
                        }
                    }
                }
            }
        }
        let _ = std::fs::remove_dir_all(&root);
        Outcome { violation, nontrivial, steps: 1 + case.tensors.len() as u64, trace_hash: mix(&trace), executions: 1, ..Default::default() }
    }

    fn shrink(&self, case: &ExtCase) -> Vec<ExtCase> {
        let mut out = Vec::new();
        if case.tensors.len() > 1 {
            for i in 0..case.tensors.len() {
                let mut c = case.clone();
                c.tensors.remove(i);
                out.push(c);
            }
        }
        for i in 0..case.disk.len() {
            let mut c = case.clone();
            c.disk.remove(i);
            out.push(c);
        }
        for (i, t) in case.tensors.iter().enumerate() {
            if t.float {
                let mut c = case.clone();
                c.tensors[i].float = false;
                c.tensors[i].elems = t.elems * 4;
                out.push(c);
            }
            if t.offset.as_deref() != Some("0") {
                let mut c = case.clone();
                c.tensors[i].offset = Some("0".into());
                out.push(c);
            }
        }
        out
    }
}

fn main() {
    driver::main::<ExtEngine>();
}
