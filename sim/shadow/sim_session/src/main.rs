//! sim_session — C22: concurrent use of one model gives sequential results.
//!
//! The whole of rten is compiled (through the shadow manifest in `../rten`)
//! with `--cfg rten_verif --cfg 'rten_verif="shuttle_plan"'`, which swaps the
//! plan-cache `Mutex` of `Graph` for Shuttle's. Caller threads are Shuttle
//! tasks; every operation of a run executes inline on its caller (hook:
//! `ThreadPool::verif_inline` / `verif::FORCE_INLINE_THREAD_POOL`), so the
//! seeded scheduler decides the complete interleaving of the calls at the
//! synchronisation points the code really has (main graph and every
//! control-flow subgraph have their own plan cache).
//!
//! Oracle: a history check. The calls are also made one at a time (each alone
//! on a fresh model, and all in thread-major order on one model); the
//! concurrent results must equal the results of *some* one-at-a-time order
//! that respects each thread's program order, no call may panic that does not
//! panic alone, and the execution must finish (Shuttle reports deadlock and
//! step-budget exhaustion).

#[path = "../../../sim_exec/src/gen.rs"]
#[allow(dead_code)]
mod gen;
#[path = "../../../common/shuttle_server.rs"]
mod shuttle_server;

use gen::{InputSpec, Program, Ty, Val};
use rten::{Model, ModelOptions, NodeId, RunOptions, ThreadPool, Value, ValueOrView};
use rten_tensor::prelude::*;
use rten_tensor::Tensor;
use serde::{Deserialize, Serialize};
use shuttle_server::Sched;
use simcore::catch::{catch, panic_site};
use simcore::driver::{self, Ctx, Engine, EngineInfo, Outcome, Tier, Violation};
use simcore::rng::{fnv64, mix, Rng};
use std::sync::{Arc, Mutex as StdMutex};

#[derive(Clone, Copy, Debug, Serialize, Deserialize, PartialEq)]
pub enum Kind {
    /// `Model::run` with every graph input.
    Run,
    /// `Model::partial_run` with one input withheld.
    Partial,
    /// `Model::run` with one input withheld (must fail cleanly).
    MissingInput,
    /// `Model::run` asking for an operator node as output (must fail cleanly).
    BadOutput,
    /// `Model::run` with a wrong-rank value for the first input.
    WrongRank,
}

#[derive(Clone, Debug, Serialize, Deserialize, PartialEq)]
pub struct Req {
    pub kind: Kind,
    /// Selects the input data.
    pub variant: u64,
    /// Indices into the program's candidate values.
    pub outputs: Vec<usize>,
    /// Inputs passed by value (bit per input), the rest are borrowed views.
    pub owned_mask: u32,
    /// Which input Partial / MissingInput withhold.
    pub drop_input: usize,
    /// Feed this candidate value as an additional input (changes the plan key).
    pub feed: Option<usize>,
    /// 0 = RunOptions default (global pool), 1 = pool shared by all calls, 2 = a pool made for this call.
    pub pool: u8,
    /// Scheduling points before the call.
    pub pause: u8,
}

#[derive(Clone, Debug, Serialize, Deserialize)]
pub struct SessionCase {
    pub model: onnxenc::Model,
    pub inputs: Vec<InputSpec>,
    pub candidates: Vec<Val>,
    pub optimize: bool,
    pub prepack: bool,
    pub threads: Vec<Vec<Req>>,
    pub sched: Sched,
}

/// (dtype tag, shape, element bits)
type Canon = (u8, Vec<usize>, Vec<u32>);

fn canon(v: &Value) -> Canon {
    match v {
        Value::FloatTensor(t) => (0, t.shape().to_vec(), t.iter().map(|x| x.to_bits()).collect()),
        Value::Int32Tensor(t) => (1, t.shape().to_vec(), t.iter().map(|x| *x as u32).collect()),
        Value::Int8Tensor(t) => (2, t.shape().to_vec(), t.iter().map(|x| *x as u8 as u32).collect()),
        Value::UInt8Tensor(t) => (3, t.shape().to_vec(), t.iter().map(|x| *x as u32).collect()),
        _ => (9, vec![], vec![]),
    }
}

#[derive(Clone, Debug, PartialEq)]
enum Res {
    /// (node id for partial_run, else position; value)
    Ok(Vec<(u32, Canon)>),
    Err(String),
    Panic(String),
    /// The call left a borrowed input changed.
    NotRun,
}

impl Res {
    fn class(&self) -> &'static str {
        match self {
            Res::Ok(_) => "ok",
            Res::Err(_) => "error",
            Res::Panic(_) => "panic",
            Res::NotRun => "not-run",
        }
    }
}

fn input_value(spec: &InputSpec, variant: u64) -> Value {
    let n: usize = spec.val.shape.iter().product();
    let mut r = Rng::new(mix(&[spec.seed, variant]));
    match spec.val.ty {
        Ty::F => {
            if let Some(s) = spec.scalar {
                return Value::from(Tensor::from_data(&spec.val.shape, vec![s as f32; n]));
            }
            Value::from(Tensor::from_data(&spec.val.shape, (0..n).map(|_| r.range(-8, 8) as f32 * 0.25).collect::<Vec<f32>>()))
        }
        Ty::I | Ty::B => {
            if let Some(s) = spec.scalar {
                return Value::from(Tensor::from_data(&spec.val.shape, vec![s; n]));
            }
            let hi = if spec.val.ty == Ty::B { 1 } else { 5 };
            let lo = if spec.val.ty == Ty::B { 0 } else { -5 };
            Value::from(Tensor::from_data(&spec.val.shape, (0..n).map(|_| r.range(lo, hi) as i32).collect::<Vec<i32>>()))
        }
    }
}

fn pause() {
    // sleep(0) rather than yield_now: yield_now de-prioritises the task under PCT
    shuttle::thread::sleep(std::time::Duration::from_millis(0));
}

struct Shared {
    case: SessionCase,
    bytes: Vec<u8>,
    shared_pool: Arc<ThreadPool>,
    /// Set when a borrowed input was found changed after a call.
    input_modified: StdMutex<Option<String>>,
}

fn load(sh: &Shared) -> Result<Model, String> {
    let mut o = ModelOptions::with_all_ops();
    o.enable_optimization(sh.case.optimize);
    o.prepack_weights(sh.case.prepack);
    match catch(|| o.load(sh.bytes.clone())) {
        Ok(Ok(m)) => Ok(m),
        Ok(Err(e)) => Err(format!("load failed: {e}")),
        Err(p) => Err(format!("load panicked: {} at {}", p.message, p.location)),
    }
}

fn kind_class(e: &rten::RunError) -> String {
    format!("{:?}", e.kind())
}

/// Make one call. Never panics.
fn call(sh: &Shared, model: &Model, req: &Req) -> Res {
    let case = &sh.case;
    let mut held: Vec<(NodeId, Value)> = Vec::new();
    for (i, spec) in case.inputs.iter().enumerate() {
        let Some(id) = model.find_node(&spec.val.name) else { return Res::NotRun };
        if matches!(req.kind, Kind::Partial | Kind::MissingInput) && i == req.drop_input % case.inputs.len().max(1) {
            continue;
        }
        let mut v = input_value(spec, req.variant);
        if req.kind == Kind::WrongRank && i == 0 {
            let mut shape = spec.val.shape.clone();
            shape.push(2);
            let n: usize = shape.iter().product();
            v = Value::from(Tensor::from_data(&shape, vec![1i32; n]));
        }
        held.push((id, v));
    }
    if let Some(f) = req.feed {
        if let Some(c) = case.candidates.get(f) {
            if let Some(id) = model.find_node(&c.name) {
                if !held.iter().any(|(h, _)| *h == id) {
                    let spec = InputSpec { val: c.clone(), seed: 0xfeed, scalar: None };
                    held.push((id, input_value(&spec, req.variant)));
                }
            }
        }
    }
    let mut out_ids: Vec<NodeId> = Vec::new();
    for o in &req.outputs {
        let Some(c) = case.candidates.get(*o) else { continue };
        let Some(id) = model.find_node(&c.name) else { continue };
        if !out_ids.contains(&id) {
            out_ids.push(id);
        }
    }
    if req.kind == Kind::BadOutput {
        if let Some(id) = case.model.graph.nodes.first().and_then(|n| model.find_node(&n.name)) {
            out_ids.push(id);
        } else {
            out_ids.push(NodeId::from_u32(0x00ff_fff0));
        }
    }
    if out_ids.is_empty() {
        return Res::NotRun;
    }
    let mut opts = RunOptions::default();
    opts.thread_pool = match req.pool % 3 {
        0 => None,
        1 => Some(sh.shared_pool.clone()),
        _ => Some(Arc::new(ThreadPool::verif_inline())),
    };
    let before: Vec<Canon> = held.iter().map(|(_, v)| canon(v)).collect();
    let inputs: Vec<(NodeId, ValueOrView)> =
        held.iter().enumerate().map(|(i, (id, v))| if req.owned_mask & (1 << i) != 0 { (*id, ValueOrView::Value(v.clone())) } else { (*id, ValueOrView::View(v.as_view())) }).collect();
    let res = if req.kind == Kind::Partial {
        match catch(|| model.partial_run(inputs, &out_ids, Some(opts))) {
            Ok(Ok(vals)) => {
                let mut v: Vec<(u32, Canon)> = vals.iter().map(|(id, v)| (id.as_u32(), canon(v))).collect();
                v.sort_by_key(|(id, _)| *id);
                Res::Ok(v)
            }
            Ok(Err(e)) => Res::Err(kind_class(&e)),
            Err(p) => Res::Panic(format!("{}|{} at {}", panic_site(&p), p.message.lines().next().unwrap_or(""), p.location)),
        }
    } else {
        match catch(|| model.run(inputs, &out_ids, Some(opts))) {
            Ok(Ok(vals)) => Res::Ok(vals.iter().enumerate().map(|(i, v)| (i as u32, canon(v))).collect()),
            Ok(Err(e)) => Res::Err(kind_class(&e)),
            Err(p) => Res::Panic(format!("{}|{} at {}", panic_site(&p), p.message.lines().next().unwrap_or(""), p.location)),
        }
    };
    let after: Vec<Canon> = held.iter().map(|(_, v)| canon(v)).collect();
    if before != after {
        *sh.input_modified.lock().unwrap() = Some(format!("a {:?} call changed an input it was lent", req.kind));
    }
    res
}

fn config() -> shuttle::Config {
    let mut c = shuttle::Config::new();
    c.failure_persistence = shuttle::FailurePersistence::None;
    c.max_steps = shuttle::MaxSteps::FailAfter(200_000);
    c.silence_warnings = true;
    c.stack_size = 8 << 20;
    c
}

fn with_scheduler(sched: &Sched, log: Arc<StdMutex<Vec<usize>>>, body: impl Fn() + Send + Sync + 'static) -> Result<(), simcore::catch::PanicInfo> {
    let (r, schedule) = shuttle_server::execute(sched, config, true, body);
    *log.lock().unwrap() = schedule;
    r
}

#[derive(Default)]
struct Observed {
    load_error: Option<String>,
    /// per (thread, index): result when made alone on a fresh model
    alone: Vec<Vec<Res>>,
    /// all calls one at a time on one model, thread-major order
    seq: Vec<Vec<Res>>,
    conc: Vec<Vec<Option<Res>>>,
    threads_finished: usize,
}

/// The sequential phases, in a one-task Shuttle execution (the plan-cache
/// mutex is Shuttle's and only exists inside an execution).
fn sequential_phase(sh: &Arc<Shared>, obs: &Arc<StdMutex<Observed>>) -> bool {
    let case = &sh.case;
    let seq_model = match load(sh) {
        Ok(m) => m,
        Err(e) => {
            obs.lock().unwrap().load_error = Some(e);
            return false;
        }
    };
    let mut seq = Vec::new();
    let mut alone = Vec::new();
    for t in &case.threads {
        let mut s = Vec::new();
        let mut a = Vec::new();
        for req in t {
            s.push(call(sh, &seq_model, req));
            match load(sh) {
                Ok(m) => a.push(call(sh, &m, req)),
                Err(_) => a.push(Res::NotRun),
            }
        }
        seq.push(s);
        alone.push(a);
    }
    let mut o = obs.lock().unwrap();
    o.seq = seq;
    o.alone = alone;
    true
}

fn concurrent_phase(sh: &Arc<Shared>, obs: &Arc<StdMutex<Observed>>) {
    let model = match load(sh) {
        Ok(m) => Arc::new(m),
        Err(e) => {
            obs.lock().unwrap().load_error = Some(e);
            return;
        }
    };
    {
        let mut o = obs.lock().unwrap();
        o.conc = sh.case.threads.iter().map(|t| vec![None; t.len()]).collect();
    }
    let mut handles = Vec::new();
    for ti in 0..sh.case.threads.len() {
        let sh = sh.clone();
        let obs = obs.clone();
        let model = model.clone();
        handles.push(shuttle::thread::spawn(move || {
            for (ri, req) in sh.case.threads[ti].iter().enumerate() {
                for _ in 0..req.pause {
                    pause();
                }
                let r = call(&sh, &model, req);
                obs.lock().unwrap().conc[ti][ri] = Some(r);
            }
            obs.lock().unwrap().threads_finished += 1;
        }));
    }
    for h in handles {
        let _ = h.join();
    }
}

/// All one-at-a-time orders that respect program order, up to `cap`.
fn orders(lens: &[usize], cap: usize) -> Vec<Vec<usize>> {
    fn rec(lens: &[usize], pos: &mut Vec<usize>, cur: &mut Vec<usize>, out: &mut Vec<Vec<usize>>, cap: usize) {
        if out.len() >= cap {
            return;
        }
        if pos.iter().zip(lens).all(|(p, l)| p == l) {
            out.push(cur.clone());
            return;
        }
        for t in 0..lens.len() {
            if pos[t] < lens[t] {
                pos[t] += 1;
                cur.push(t);
                rec(lens, pos, cur, out, cap);
                cur.pop();
                pos[t] -= 1;
            }
        }
    }
    let mut out = Vec::new();
    rec(lens, &mut vec![0; lens.len()], &mut Vec::new(), &mut out, cap);
    out
}

struct SessionEngine {
    n: u64,
}

#[derive(Default)]
struct Verdict {
    violation: Option<(String, String)>,
    schedule: Vec<usize>,
    calls: u64,
    ok_calls: u64,
    err_calls: u64,
    explained_by_other_order: bool,
    order_dependent_sequentially: bool,
    load_failed: bool,
    distinct_plan_keys: usize,
}

fn execute(case: &SessionCase) -> Verdict {
    let mut verdict = Verdict::default();
    let sh = Arc::new(Shared { case: case.clone(), bytes: case.model.encode(), shared_pool: Arc::new(ThreadPool::verif_inline()), input_modified: StdMutex::new(None) });
    let obs = Arc::new(StdMutex::new(Observed::default()));
    // phase 1: one task, trivial schedule
    {
        let (sh2, obs2) = (sh.clone(), obs.clone());
        let r = with_scheduler(&Sched::Explicit(vec![]), Arc::new(StdMutex::new(Vec::new())), move || {
            sequential_phase(&sh2, &obs2);
        });
        if let Err(p) = r {
            // cannot happen through rten (every call is caught); report as harness trouble of this case only
            verdict.load_failed = true;
            verdict.violation = None;
            let _ = p;
            return verdict;
        }
    }
    if obs.lock().unwrap().load_error.is_some() {
        verdict.load_failed = true;
        return verdict;
    }
    // phase 2: the concurrent execution under the case's scheduler
    let log = Arc::new(StdMutex::new(Vec::new()));
    let r = {
        let (sh2, obs2) = (sh.clone(), obs.clone());
        with_scheduler(&case.sched, log.clone(), move || concurrent_phase(&sh2, &obs2))
    };
    verdict.schedule = log.lock().unwrap().clone();
    let o = obs.lock().unwrap_or_else(|e| e.into_inner());
    let nthreads = case.threads.len();
    if let Err(p) = &r {
        let first = p.message.lines().next().unwrap_or("").to_string();
        let key = if p.message.contains("deadlock") {
            "C22/blocked-forever/deadlock".to_string()
        } else if p.message.contains("max_steps") {
            "C22/blocked-forever/step-budget".to_string()
        } else {
            format!("C22/panic-outside-call/{}", panic_site(p))
        };
        verdict.violation = Some((key, format!("{first} at {} ({} of {nthreads} threads had finished)", p.location, o.threads_finished)));
        return verdict;
    }
    if let Some(m) = sh.input_modified.lock().unwrap().clone() {
        verdict.violation = Some(("C22/borrowed-input-modified".into(), m));
        return verdict;
    }
    let mut keys: Vec<(Vec<usize>, u8, Option<usize>)> = Vec::new();
    // a call that does not panic alone must not panic next to others
    for (ti, t) in case.threads.iter().enumerate() {
        for (ri, req) in t.iter().enumerate() {
            let Some(c) = o.conc.get(ti).and_then(|v| v.get(ri)).cloned().flatten() else {
                verdict.violation = Some(("C22/call-never-returned".into(), format!("thread {ti} call {ri} has no result although the execution ended")));
                return verdict;
            };
            verdict.calls += 1;
            match &c {
                Res::Ok(_) => verdict.ok_calls += 1,
                Res::Err(_) => verdict.err_calls += 1,
                _ => {}
            }
            let k = (req.outputs.clone(), req.kind as u8, req.feed);
            if !keys.contains(&k) {
                keys.push(k);
            }
            if let (Res::Panic(site), false) = (&c, matches!(o.alone[ti][ri], Res::Panic(_))) {
                let (file, rest) = site.split_once('|').unwrap_or((site.as_str(), ""));
                verdict.violation = Some((format!("C22/panic-because-of-another/{file}"), format!("thread {ti} call {ri} ({:?}) panicked next to other calls ({rest}) but returns {} when made alone", req.kind, o.alone[ti][ri].class())));
                return verdict;
            }
        }
    }
    verdict.distinct_plan_keys = keys.len();
    let conc: Vec<Vec<Res>> = o.conc.iter().map(|t| t.iter().map(|r| r.clone().unwrap()).collect()).collect();
    verdict.order_dependent_sequentially = o.seq != o.alone;
    if conc == o.seq || conc == o.alone {
        return verdict;
    }
    let (seq, alone) = (o.seq.clone(), o.alone.clone());
    drop(o);
    // The concurrent results differ from the thread-major order. Is there any one-at-a-time order that gives them?
    let lens: Vec<usize> = case.threads.iter().map(|t| t.len()).collect();
    let all = orders(&lens, 4000);
    let found = Arc::new(StdMutex::new(false));
    {
        let (sh2, found2, conc2) = (sh.clone(), found.clone(), conc.clone());
        let _ = with_scheduler(&Sched::Explicit(vec![]), Arc::new(StdMutex::new(Vec::new())), move || {
            for order in &all {
                let Ok(m) = load(&sh2) else { return };
                let mut pos = vec![0usize; sh2.case.threads.len()];
                let mut same = true;
                for &t in order {
                    let r = call(&sh2, &m, &sh2.case.threads[t][pos[t]]);
                    if r != conc2[t][pos[t]] {
                        same = false;
                        break;
                    }
                    pos[t] += 1;
                }
                if same {
                    *found2.lock().unwrap() = true;
                    return;
                }
            }
        });
    }
    if *found.lock().unwrap() {
        verdict.explained_by_other_order = true;
        return verdict;
    }
    // describe the first differing call
    for (ti, t) in conc.iter().enumerate() {
        for (ri, c) in t.iter().enumerate() {
            if *c != seq[ti][ri] {
                let what = match (c, &seq[ti][ri]) {
                    (Res::Ok(a), Res::Ok(b)) if a.len() != b.len() => "output-count",
                    (Res::Ok(a), Res::Ok(b)) if a.iter().zip(b).any(|(x, y)| x.1 .1 != y.1 .1 || x.1 .0 != y.1 .0) => "output-shape-or-type",
                    (Res::Ok(_), Res::Ok(_)) => "output-values",
                    (Res::Ok(_), _) => "succeeded-instead-of-failing",
                    (Res::Err(_), Res::Ok(_)) => "failed-instead-of-succeeding",
                    (Res::Err(_), Res::Err(_)) => "different-error",
                    _ => "other",
                };
                verdict.violation = Some((
                    format!("C22/not-sequential/{what}"),
                    format!(
                        "thread {ti} call {ri} ({:?}, outputs {:?}) returned {} next to other calls, {} one at a time in thread order, {} alone; no one-at-a-time order of the {} calls gives the concurrent results",
                        case.threads[ti][ri].kind,
                        case.threads[ti][ri].outputs,
                        brief(c),
                        brief(&seq[ti][ri]),
                        brief(&alone[ti][ri]),
                        lens.iter().sum::<usize>()
                    ),
                ));
                return verdict;
            }
        }
    }
    verdict
}

fn brief(r: &Res) -> String {
    match r {
        Res::Ok(v) => {
            let parts: Vec<String> = v.iter().take(3).map(|(_, c)| format!("{:?}:{:x}", c.1, fnv64(&c.2.iter().flat_map(|x| x.to_le_bytes()).collect::<Vec<u8>>()) & 0xffff)).collect();
            format!("Ok[{}]", parts.join(","))
        }
        Res::Err(e) => format!("Err({e})"),
        Res::Panic(p) => format!("Panic({})", p.split('|').next().unwrap_or("")),
        Res::NotRun => "not-run".into(),
    }
}

impl Engine for SessionEngine {
    type Case = SessionCase;

    fn name() -> &'static str {
        "sim_session"
    }
    fn engine_id() -> u64 {
        22
    }
    fn properties() -> Vec<&'static str> {
        vec!["C22"]
    }

    fn new(_p: &str, tier: Tier, _seed: u64) -> Self {
        rten::verif::FORCE_INLINE_THREAD_POOL.store(true, std::sync::atomic::Ordering::SeqCst);
        SessionEngine {
            n: match tier {
                Tier::Quick => 300_000,
                Tier::Thorough => 20_000_000,
            },
        }
    }

    fn info(&self) -> EngineInfo {
        EngineInfo {
            level: "exploration",
            rule: "Seeded scenarios: an integer-only ONNX program (seeded generator shared with sim_exec; half with If/Loop subgraphs, each of which has its own plan cache) is loaded once and called from 2-3 simulated caller threads x 1-4 calls each: run / partial_run with an input withheld / run with a missing input / run with an operator node as output / run with a wrong-rank input; calls differ in input data, in requested output set (1-3 of the program's values), optionally feed an intermediate value as extra input (a different plan key), pass inputs owned or borrowed, and use the default pool, a pool shared by all calls or a pool made for the call; 0-2 scheduling points before each call. One controlled execution per case under a seeded random-walk or PCT (depth 1-3) scheduler; scheduling points are every lock/unlock of the real plan-cache mutexes plus the pauses. History check: the concurrent results must equal those of some one-at-a-time order (thread-major order and each-call-alone are computed always, every other program-order-respecting order, up to 4000, on a mismatch); a call that does not panic alone must not panic; the execution must end (Shuttle reports deadlock and an exhausted step budget); borrowed inputs must be unchanged. Non-trivial = at least two different plan keys, at least one successful call and at least 2 context switches; distinct = hash of the recorded schedule with the scenario.".into(),
            real_components: vec!["rten compiled from /repo/src/lib.rs through a shadow manifest: ONNX loader, optimizer, planner, Graph::{run, partial_run, run_subgraph, get_cached_plan}, CachedPlan::matches, executor, operators, weight cache".into()],
            stub_components: vec![
                "std::sync::Mutex of the plan cache -> shuttle::sync::Mutex (cfg'd import swap); caller threads -> Shuttle tasks".into(),
                "rayon thread pools -> ThreadPool::verif_inline (operators run on the calling task; shared vs per-call pools are therefore distinct objects but not distinct worker threads)".into(),
            ],
            assumptions: vec![
                "integer-only programs so that every result is exact".into(),
                "if one-at-a-time results themselves depend on call order the case is not judged here (probe:sequential_results_order_dependent); that is C25".into(),
                "the real rayon pools are not under the scheduler's control and are replaced; contention inside rayon is outside this check".into(),
            ],
            technique: "deterministic simulation (Shuttle seeded random + PCT schedules over the real Model::run / partial_run with the plan-cache mutex under the scheduler; history checked against one-at-a-time executions)".into(),
            hang_secs: 120,
            expected_probes: vec![
                "probe:calls_ok".into(),
                "probe:calls_failed_cleanly".into(),
                "probe:context_switches>=2".into(),
                "probe:plan_keys>=2".into(),
                "probe:control_flow_program".into(),
                "probe:pct_schedule".into(),
                "probe:random_schedule".into(),
                "probe:three_threads".into(),
                "probe:partial_run".into(),
            ],
        }
    }

    fn num_cases(&self) -> u64 {
        self.n
    }

    fn make_case(&self, _index: u64, seed: u64) -> SessionCase {
        let mut r = Rng::new(seed);
        let cf = r.chance(1, 2);
        let Program { model, inputs, candidates, .. } = gen::generate_with(&mut r, cf, true);
        let nthreads = if r.chance(1, 3) { 3 } else { 2 };
        let ncand = candidates.len().max(1);
        // only values produced by single-output operators are fed as extra inputs (supplying one output of a
        // multi-output operator whose other output is still needed is an ambiguous request)
        let feedable: Vec<usize> = (0..candidates.len()).filter(|i| model.graph.nodes.iter().any(|n| n.outputs.len() == 1 && n.outputs[0] == candidates[*i].name)).collect();
        let mut threads = Vec::new();
        for _ in 0..nthreads {
            let n = r.urange(1, 4);
            let mut reqs = Vec::new();
            for _ in 0..n {
                let kind = match r.below(16) {
                    0 => Kind::MissingInput,
                    1 => Kind::BadOutput,
                    2 => Kind::WrongRank,
                    3 | 4 | 5 => Kind::Partial,
                    _ => Kind::Run,
                };
                let nout = r.urange(1, 3);
                let outputs: Vec<usize> = (0..nout).map(|_| r.below(ncand as u64) as usize).collect();
                reqs.push(Req {
                    kind,
                    variant: r.below(4),
                    outputs,
                    owned_mask: if r.chance(1, 2) { 0 } else { r.next_u64() as u32 },
                    drop_input: r.below(4) as usize,
                    feed: if !feedable.is_empty() && r.chance(1, 5) { Some(feedable[r.below(feedable.len() as u64) as usize]) } else { None },
                    pool: r.below(3) as u8,
                    pause: r.below(3) as u8,
                });
            }
            threads.push(reqs);
        }
        let sched = if r.chance(1, 3) { Sched::Pct { seed: r.next_u64(), depth: r.urange(1, 3) } } else { Sched::Random { seed: r.next_u64() } };
        SessionCase { model, inputs, candidates, optimize: r.chance(1, 2), prepack: r.chance(1, 4), threads, sched }
    }

    fn run_case(&self, case: &SessionCase, ctx: &mut Ctx) -> Outcome {
        if case.threads.is_empty() || case.threads.len() > 4 || case.threads.iter().any(|t| t.len() > 8) {
            return Outcome { executions: 1, ..Default::default() };
        }
        let v = execute(case);
        if v.load_failed {
            ctx.count("probe:load_failed");
            return Outcome { executions: 1, ..Default::default() };
        }
        let switches = v.schedule.windows(2).filter(|w| w[0] != w[1]).count();
        ctx.add("probe:calls_ok", v.ok_calls);
        ctx.add("probe:calls_failed_cleanly", v.err_calls);
        if switches >= 2 {
            ctx.count("probe:context_switches>=2");
        }
        if v.distinct_plan_keys >= 2 {
            ctx.count("probe:plan_keys>=2");
        }
        if v.explained_by_other_order {
            ctx.count("probe:results_match_another_sequential_order");
        }
        if v.order_dependent_sequentially {
            ctx.count("probe:sequential_results_order_dependent");
        }
        fn has_cf(g: &onnxenc::Graph) -> bool {
            g.nodes.iter().any(|n| n.op_type == "If" || n.op_type == "Loop")
        }
        if has_cf(&case.model.graph) {
            ctx.count("probe:control_flow_program");
        }
        match case.sched {
            Sched::Pct { .. } => ctx.count("probe:pct_schedule"),
            Sched::Random { .. } => ctx.count("probe:random_schedule"),
            Sched::Explicit(_) => ctx.count("probe:explicit_schedule"),
        }
        if case.threads.len() >= 3 {
            ctx.count("probe:three_threads");
        }
        if case.threads.iter().flatten().any(|r| r.kind == Kind::Partial) {
            ctx.count("probe:partial_run");
        }
        let sched_hash = fnv64(&v.schedule.iter().flat_map(|t| (*t as u32).to_le_bytes()).collect::<Vec<u8>>());
        // the recorded schedule, so that minimisation edits the scenario without re-rolling the schedule
        let explicit_case = if v.violation.is_some() && !matches!(case.sched, Sched::Explicit(_)) {
            let mut c = case.clone();
            c.sched = Sched::Explicit(v.schedule.clone());
            serde_json::to_value(c).ok()
        } else {
            None
        };
        Outcome {
            violation: v.violation.map(|(k, d)| Violation::new(k, format!("{d} [schedule {:?}]", &v.schedule[..v.schedule.len().min(60)]))),
            nontrivial: switches >= 2 && v.distinct_plan_keys >= 2 && v.ok_calls > 0,
            steps: v.schedule.len() as u64,
            trace_hash: mix(&[sched_hash, v.ok_calls, v.err_calls]),
            executions: 1,
            explicit_case,
        }
    }

    fn shrink(&self, case: &SessionCase) -> Vec<SessionCase> {
        let mut out = Vec::new();
        if case.threads.len() > 1 {
            for i in 0..case.threads.len() {
                let mut c = case.clone();
                c.threads.remove(i);
                out.push(c);
            }
        }
        for (ti, t) in case.threads.iter().enumerate() {
            for ri in (0..t.len()).rev() {
                let mut c = case.clone();
                c.threads[ti].remove(ri);
                out.push(c);
            }
        }
        for (ti, t) in case.threads.iter().enumerate() {
            for (ri, req) in t.iter().enumerate() {
                let mut push = |f: &dyn Fn(&mut Req)| {
                    let mut c = case.clone();
                    f(&mut c.threads[ti][ri]);
                    out.push(c);
                };
                if req.outputs.len() > 1 {
                    for k in 0..req.outputs.len() {
                        push(&|r: &mut Req| {
                            r.outputs.remove(k);
                        });
                    }
                }
                if req.kind != Kind::Run {
                    push(&|r: &mut Req| r.kind = Kind::Run);
                }
                if req.pause != 0 {
                    push(&|r: &mut Req| r.pause = 0);
                }
                if req.feed.is_some() {
                    push(&|r: &mut Req| r.feed = None);
                }
                if req.owned_mask != 0 {
                    push(&|r: &mut Req| r.owned_mask = 0);
                }
                if req.pool != 0 {
                    push(&|r: &mut Req| r.pool = 0);
                }
                if req.variant != 0 {
                    push(&|r: &mut Req| r.variant = 0);
                }
            }
        }
        if case.optimize {
            let mut c = case.clone();
            c.optimize = false;
            out.push(c);
        }
        if case.prepack {
            let mut c = case.clone();
            c.prepack = false;
            out.push(c);
        }
        // drop operators whose outputs nobody uses
        fn in_graph(g: &onnxenc::Graph, name: &str) -> bool {
            g.nodes.iter().any(|n| n.inputs.iter().any(|i| i == name) || n.attrs.iter().any(|(_, a)| matches!(a, onnxenc::Attr::Graph(g2) if in_graph(g2, name))))
        }
        let requested: Vec<&str> = case.threads.iter().flatten().flat_map(|r| r.outputs.iter().chain(r.feed.iter())).filter_map(|i| case.candidates.get(*i)).map(|c| c.name.as_str()).collect();
        for i in (0..case.model.graph.nodes.len()).rev() {
            let n = &case.model.graph.nodes[i];
            let mut rest = case.model.graph.clone();
            rest.nodes.remove(i);
            if n.outputs.iter().all(|o| o.is_empty() || (!in_graph(&rest, o) && !requested.contains(&o.as_str()))) {
                let mut c = case.clone();
                c.model.graph.nodes.remove(i);
                c.model.graph.outputs.retain(|o| !n.outputs.contains(&o.name));
                out.push(c);
            }
        }
        if let Sched::Explicit(list) = &case.sched {
            for cut in [list.len() / 2, list.len() * 3 / 4, list.len().saturating_sub(1)] {
                if cut < list.len() {
                    let mut c = case.clone();
                    c.sched = Sched::Explicit(list[..cut].to_vec());
                    out.push(c);
                }
            }
            for i in 0..list.len().min(64) {
                let mut l = list.clone();
                l.remove(i);
                let mut c = case.clone();
                c.sched = Sched::Explicit(l);
                out.push(c);
            }
        }
        out
    }
}

fn main() {
    driver::main::<SessionEngine>();
}
