//! Shared core of the deterministic simulators for rten.
pub mod catch;
pub mod devices;
pub mod driver;
pub mod rng;

pub use driver::{Ctx, Engine, EngineInfo, Outcome, Tier, Violation};
pub use rng::Rng;
