//! The only source of randomness in the simulators: splitmix64 for seed
//! derivation and xoshiro256** for streams. No thread-rng, no clocks.

pub fn splitmix64(x: u64) -> u64 {
    let mut z = x.wrapping_add(0x9E37_79B9_7F4A_7C15);
    z = (z ^ (z >> 30)).wrapping_mul(0xBF58_476D_1CE4_E5B9);
    z = (z ^ (z >> 27)).wrapping_mul(0x94D0_49BB_1331_11EB);
    z ^ (z >> 31)
}

/// Mix several integers into one seed.
pub fn mix(parts: &[u64]) -> u64 {
    let mut h = 0x243F_6A88_85A3_08D3u64;
    for p in parts {
        h = splitmix64(h ^ splitmix64(*p));
    }
    h
}

/// `case_seed = f(VERIF_SEED, engine_id, case_index)`.
pub fn case_seed(verif_seed: u64, engine_id: u64, index: u64) -> u64 {
    mix(&[verif_seed, engine_id, index])
}

/// FNV-1a 64 over bytes, used for case hashes and event-log hashes.
pub fn fnv64(bytes: &[u8]) -> u64 {
    let mut h = 0xcbf2_9ce4_8422_2325u64;
    for b in bytes {
        h ^= *b as u64;
        h = h.wrapping_mul(0x0000_0100_0000_01B3);
    }
    h
}

#[derive(Clone, Debug)]
pub struct Rng {
    s: [u64; 4],
}

impl Rng {
    pub fn new(seed: u64) -> Rng {
        let mut x = seed;
        let mut s = [0u64; 4];
        for slot in s.iter_mut() {
            x = splitmix64(x);
            *slot = x;
        }
        if s == [0, 0, 0, 0] {
            s[0] = 1;
        }
        Rng { s }
    }

    pub fn next_u64(&mut self) -> u64 {
        let result = self.s[1].wrapping_mul(5).rotate_left(7).wrapping_mul(9);
        let t = self.s[1] << 17;
        self.s[2] ^= self.s[0];
        self.s[3] ^= self.s[1];
        self.s[1] ^= self.s[2];
        self.s[0] ^= self.s[3];
        self.s[2] ^= t;
        self.s[3] = self.s[3].rotate_left(45);
        result
    }

    /// Uniform in `0..n` (n > 0).
    pub fn below(&mut self, n: u64) -> u64 {
        assert!(n > 0);
        // Multiply-shift; bias is irrelevant here.
        ((self.next_u64() as u128 * n as u128) >> 64) as u64
    }

    pub fn usize_below(&mut self, n: usize) -> usize {
        self.below(n as u64) as usize
    }

    /// Uniform in `lo..=hi`.
    pub fn range(&mut self, lo: i64, hi: i64) -> i64 {
        assert!(lo <= hi);
        lo + self.below((hi - lo) as u64 + 1) as i64
    }

    pub fn urange(&mut self, lo: usize, hi: usize) -> usize {
        assert!(lo <= hi);
        lo + self.below((hi - lo) as u64 + 1) as usize
    }

    /// True with probability num/den.
    pub fn chance(&mut self, num: u64, den: u64) -> bool {
        self.below(den) < num
    }

    pub fn bool(&mut self) -> bool {
        self.next_u64() & 1 == 1
    }

    pub fn pick<'a, T>(&mut self, items: &'a [T]) -> &'a T {
        &items[self.usize_below(items.len())]
    }

    pub fn shuffle<T>(&mut self, items: &mut [T]) {
        for i in (1..items.len()).rev() {
            let j = self.usize_below(i + 1);
            items.swap(i, j);
        }
    }

    /// Derive an independent stream.
    pub fn fork(&mut self) -> Rng {
        Rng::new(self.next_u64())
    }
}

#[cfg(test)]
mod tests {
    use super::*;
    #[test]
    fn deterministic() {
        let mut a = Rng::new(7);
        let mut b = Rng::new(7);
        for _ in 0..100 {
            assert_eq!(a.next_u64(), b.next_u64());
        }
        assert_ne!(Rng::new(1).next_u64(), Rng::new(2).next_u64());
        for n in 1..50 {
            assert!(a.below(n) < n);
        }
    }
}
