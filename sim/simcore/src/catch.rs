//! Panic capture: the system under test panicking is a *verdict*, not a crash of
//! the harness. A process-wide hook records message and location per thread
//! and prints nothing (so batch output stays clean and deterministic).

use std::cell::RefCell;
use std::panic::{self, AssertUnwindSafe};
use std::sync::Once;

thread_local! {
    static LAST: RefCell<Option<PanicInfo>> = const { RefCell::new(None) };
}

#[derive(Clone, Debug)]
pub struct PanicInfo {
    pub message: String,
    /// `file:line` of the panic.
    pub location: String,
    /// Only the file part, for bounded finding keys.
    pub file: String,
}

static INSTALL: Once = Once::new();

/// Last panic on *any* thread: the system under test may panic on a pool
/// worker and re-raise on the calling thread, where the location is lost.
static GLOBAL_LAST: std::sync::Mutex<Option<PanicInfo>> = std::sync::Mutex::new(None);

pub fn install_hook() {
    INSTALL.call_once(|| {
        panic::set_hook(Box::new(|info| {
            let message = if let Some(s) = info.payload().downcast_ref::<&str>() {
                s.to_string()
            } else if let Some(s) = info.payload().downcast_ref::<String>() {
                s.clone()
            } else {
                "<non-string panic>".to_string()
            };
            let (location, file) = match info.location() {
                Some(l) => (format!("{}:{}", l.file(), l.line()), l.file().to_string()),
                None => ("?".to_string(), "?".to_string()),
            };
            let info = PanicInfo { message, location, file };
            if let Ok(mut g) = GLOBAL_LAST.lock() {
                if g.is_none() {
                    *g = Some(info.clone());
                }
            }
            LAST.with(|l| *l.borrow_mut() = Some(info));
        }));
    });
}

/// Run `f`, turning a panic into `Err(PanicInfo)`.
pub fn catch<T>(f: impl FnOnce() -> T) -> Result<T, PanicInfo> {
    install_hook();
    LAST.with(|l| *l.borrow_mut() = None);
    if let Ok(mut g) = GLOBAL_LAST.lock() {
        *g = None;
    }
    match panic::catch_unwind(AssertUnwindSafe(f)) {
        Ok(v) => Ok(v),
        Err(payload) => {
            let info = LAST.with(|l| l.borrow_mut().take());
            let info = info.or_else(|| GLOBAL_LAST.lock().ok().and_then(|mut g| g.take()));
            Err(info.unwrap_or_else(|| {
                let message = if let Some(s) = payload.downcast_ref::<&str>() {
                    s.to_string()
                } else if let Some(s) = payload.downcast_ref::<String>() {
                    s.clone()
                } else {
                    "<panic on another thread>".to_string()
                };
                PanicInfo { message, location: "?".into(), file: "?".into() }
            }))
        }
    }
}

/// Short, bounded description of where a panic came from: the path below
/// `/repo/` without line numbers (finding keys must survive unrelated edits).
pub fn panic_site(info: &PanicInfo) -> String {
    let f = info.file.as_str();
    let f = f.strip_prefix("/repo/").unwrap_or(f);
    // Registry crates: keep crate dir + file name only.
    if let Some(idx) = f.find("/registry/src/") {
        let rest = &f[idx + "/registry/src/".len()..];
        let mut parts = rest.split('/');
        let _index = parts.next();
        let krate = parts.next().unwrap_or("?");
        let file = rest.rsplit('/').next().unwrap_or("?");
        return format!("dep:{}/{}", krate, file);
    }
    if f.contains("/rustc/") || f.contains("/library/") {
        let file: Vec<&str> = f.rsplit('/').take(2).collect();
        return format!("std:{}", file.into_iter().rev().collect::<Vec<_>>().join("/"));
    }
    f.to_string()
}
