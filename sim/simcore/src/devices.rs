//! Simulated I/O devices: a file (`Read + Seek`), a stream reader (`Read`)
//! and a writer (`Write + Seek`), each driven by an explicit, serialisable
//! fault plan and counting every operation so that a non-terminating consumer
//! becomes a deterministic verdict (operation budget) instead of a hang.

use serde::{Deserialize, Serialize};
use std::cell::RefCell;
use std::io::{self, Read, Seek, SeekFrom, Write};
use std::rc::Rc;

#[derive(Clone, Debug, Default, Serialize, Deserialize, PartialEq)]
pub struct ReadPlan {
    /// Maximum bytes delivered per `read` call; 0 = unlimited.
    pub max_read: usize,
    /// `read` call ordinals (0-based) that return `ErrorKind::Interrupted`.
    #[serde(default)]
    pub interrupt_calls: Vec<u64>,
    /// A read that would start at or cross this offset delivers the bytes
    /// before it (short read) and the next call returns `Err(Other)`.
    #[serde(default)]
    pub error_at_offset: Option<u64>,
    /// `read` call ordinal that returns `Err(Other)`.
    #[serde(default)]
    pub error_at_call: Option<u64>,
    /// The device ends here although the stored bytes go on (truncation).
    #[serde(default)]
    pub eof_at: Option<u64>,
    /// `seek` call ordinal that returns `Err(Other)`.
    #[serde(default)]
    pub seek_error_at_call: Option<u64>,
}

impl ReadPlan {
    pub fn is_fault_free(&self) -> bool {
        self.interrupt_calls.is_empty()
            && self.error_at_offset.is_none()
            && self.error_at_call.is_none()
            && self.eof_at.is_none()
            && self.seek_error_at_call.is_none()
    }
    pub fn has_hard_fault(&self) -> bool {
        self.error_at_offset.is_some()
            || self.error_at_call.is_some()
            || self.eof_at.is_some()
            || self.seek_error_at_call.is_some()
    }
}

#[derive(Clone, Debug, Default, Serialize, Deserialize, PartialEq)]
pub struct IoStats {
    pub read_calls: u64,
    pub bytes_served: u64,
    pub seeks: u64,
    pub backward_seeks: u64,
    pub seek_distance: u64,
    pub short_reads: u64,
    pub interrupts_fired: u64,
    pub errors_fired: u64,
    pub eof_fired: u64,
    pub write_calls: u64,
    pub bytes_written: u64,
    pub short_writes: u64,
    pub zero_writes: u64,
    pub flush_calls: u64,
    pub budget_exceeded: bool,
}

impl IoStats {
    pub fn ops(&self) -> u64 {
        self.read_calls + self.seeks + self.write_calls + self.flush_calls
    }
}

pub type SharedStats = Rc<RefCell<IoStats>>;

fn other(msg: &str) -> io::Error {
    io::Error::new(io::ErrorKind::Other, msg.to_string())
}

/// A simulated file: stored bytes + a plan for how the device misbehaves.
pub struct SimFile {
    data: Rc<Vec<u8>>,
    pos: u64,
    plan: ReadPlan,
    stats: SharedStats,
    /// Maximum number of operations (reads + seeks) before the device starts
    /// refusing service. 0 = unlimited.
    budget_ops: u64,
    /// Maximum number of bytes served in total. 0 = unlimited.
    budget_bytes: u64,
    pending_error: bool,
}

impl SimFile {
    pub fn new(data: Rc<Vec<u8>>, plan: ReadPlan) -> (SimFile, SharedStats) {
        let stats: SharedStats = Rc::new(RefCell::new(IoStats::default()));
        (
            SimFile {
                data,
                pos: 0,
                plan,
                stats: stats.clone(),
                budget_ops: 0,
                budget_bytes: 0,
                pending_error: false,
            },
            stats,
        )
    }

    pub fn with_budget(mut self, ops: u64, bytes: u64) -> SimFile {
        self.budget_ops = ops;
        self.budget_bytes = bytes;
        self
    }

    fn effective_len(&self) -> u64 {
        let len = self.data.len() as u64;
        match self.plan.eof_at {
            Some(e) => e.min(len),
            None => len,
        }
    }

    fn over_budget(&self, st: &mut IoStats) -> bool {
        if (self.budget_ops > 0 && st.read_calls + st.seeks > self.budget_ops)
            || (self.budget_bytes > 0 && st.bytes_served > self.budget_bytes)
        {
            st.budget_exceeded = true;
            true
        } else {
            false
        }
    }
}

impl Read for SimFile {
    fn read(&mut self, buf: &mut [u8]) -> io::Result<usize> {
        let mut st = self.stats.borrow_mut();
        let call = st.read_calls;
        st.read_calls += 1;
        if self.over_budget(&mut st) {
            return Err(other("sim: operation budget exceeded"));
        }
        if self.plan.interrupt_calls.contains(&call) {
            st.interrupts_fired += 1;
            return Err(io::Error::new(io::ErrorKind::Interrupted, "sim: EINTR"));
        }
        if self.plan.error_at_call == Some(call) || self.pending_error {
            self.pending_error = false;
            st.errors_fired += 1;
            return Err(other("sim: injected read error"));
        }
        if buf.is_empty() {
            return Ok(0);
        }
        let len = self.effective_len();
        if self.pos >= len {
            if self.plan.eof_at.is_some() && (self.data.len() as u64) > len {
                st.eof_fired += 1;
            }
            return Ok(0);
        }
        let mut n = (len - self.pos).min(buf.len() as u64) as usize;
        if self.plan.max_read > 0 && n > self.plan.max_read {
            n = self.plan.max_read;
        }
        if let Some(eo) = self.plan.error_at_offset {
            if self.pos <= eo && eo < self.pos + n as u64 {
                let before = (eo - self.pos) as usize;
                if before == 0 {
                    st.errors_fired += 1;
                    return Err(other("sim: injected read error at offset"));
                }
                n = before;
                self.pending_error = true;
            }
        }
        if n < buf.len() && (self.pos + n as u64) < len {
            st.short_reads += 1;
        }
        let start = self.pos as usize;
        buf[..n].copy_from_slice(&self.data[start..start + n]);
        self.pos += n as u64;
        st.bytes_served += n as u64;
        Ok(n)
    }
}

impl Seek for SimFile {
    fn seek(&mut self, pos: SeekFrom) -> io::Result<u64> {
        let mut st = self.stats.borrow_mut();
        let call = st.seeks;
        st.seeks += 1;
        if self.over_budget(&mut st) {
            return Err(other("sim: operation budget exceeded"));
        }
        if self.plan.seek_error_at_call == Some(call) {
            st.errors_fired += 1;
            return Err(other("sim: injected seek error"));
        }
        let len = self.effective_len();
        let new: i128 = match pos {
            SeekFrom::Start(p) => p as i128,
            SeekFrom::End(d) => len as i128 + d as i128,
            SeekFrom::Current(d) => self.pos as i128 + d as i128,
        };
        if new < 0 || new > u64::MAX as i128 {
            return Err(io::Error::new(
                io::ErrorKind::InvalidInput,
                "sim: seek to a negative or overflowing position",
            ));
        }
        let new = new as u64;
        if new < self.pos {
            st.backward_seeks += 1;
            st.seek_distance += self.pos - new;
        } else {
            st.seek_distance += new - self.pos;
        }
        self.pos = new;
        Ok(new)
    }
}

/// A non-seekable stream with the same fault plan.
pub struct SimReader(SimFile);

impl SimReader {
    pub fn new(data: Rc<Vec<u8>>, plan: ReadPlan) -> (SimReader, SharedStats) {
        let (f, s) = SimFile::new(data, plan);
        (SimReader(f), s)
    }
    pub fn with_budget(self, ops: u64, bytes: u64) -> SimReader {
        SimReader(self.0.with_budget(ops, bytes))
    }
}

impl Read for SimReader {
    fn read(&mut self, buf: &mut [u8]) -> io::Result<usize> {
        self.0.read(buf)
    }
}

#[derive(Clone, Debug, Default, Serialize, Deserialize, PartialEq)]
pub struct WritePlan {
    /// Maximum bytes accepted per `write` call; 0 = unlimited.
    pub max_write: usize,
    #[serde(default)]
    pub interrupt_calls: Vec<u64>,
    /// `write` call ordinal that returns `Ok(0)` (full disk).
    #[serde(default)]
    pub zero_write_at_call: Option<u64>,
    /// Once this many bytes were accepted in total every later write fails
    /// (crash / device gone). Bytes before the cut are kept.
    #[serde(default)]
    pub crash_after_bytes: Option<u64>,
    /// `write` call ordinal that returns `Err(Other)` once.
    #[serde(default)]
    pub error_at_call: Option<u64>,
    /// `flush` returns an error.
    #[serde(default)]
    pub flush_error: bool,
}

impl WritePlan {
    pub fn has_hard_fault(&self) -> bool {
        self.zero_write_at_call.is_some()
            || self.crash_after_bytes.is_some()
            || self.error_at_call.is_some()
            || self.flush_error
    }
}

/// A simulated writable, seekable file.
pub struct SimWriter {
    sink: Rc<RefCell<Vec<u8>>>,
    pos: u64,
    plan: WritePlan,
    stats: SharedStats,
    accepted: u64,
    budget_ops: u64,
}

impl SimWriter {
    pub fn new(plan: WritePlan) -> (SimWriter, Rc<RefCell<Vec<u8>>>, SharedStats) {
        let sink = Rc::new(RefCell::new(Vec::new()));
        let stats: SharedStats = Rc::new(RefCell::new(IoStats::default()));
        (
            SimWriter {
                sink: sink.clone(),
                pos: 0,
                plan,
                stats: stats.clone(),
                accepted: 0,
                budget_ops: 0,
            },
            sink,
            stats,
        )
    }
    pub fn with_budget(mut self, ops: u64) -> SimWriter {
        self.budget_ops = ops;
        self
    }
}

impl Write for SimWriter {
    fn write(&mut self, buf: &[u8]) -> io::Result<usize> {
        let mut st = self.stats.borrow_mut();
        let call = st.write_calls;
        st.write_calls += 1;
        if self.budget_ops > 0 && st.ops() > self.budget_ops {
            st.budget_exceeded = true;
            return Err(other("sim: operation budget exceeded"));
        }
        if self.plan.interrupt_calls.contains(&call) {
            st.interrupts_fired += 1;
            return Err(io::Error::new(io::ErrorKind::Interrupted, "sim: EINTR"));
        }
        if self.plan.error_at_call == Some(call) {
            st.errors_fired += 1;
            return Err(other("sim: injected write error"));
        }
        if buf.is_empty() {
            return Ok(0);
        }
        if self.plan.zero_write_at_call == Some(call) {
            st.zero_writes += 1;
            return Ok(0);
        }
        let mut n = buf.len();
        if self.plan.max_write > 0 && n > self.plan.max_write {
            n = self.plan.max_write;
        }
        if let Some(cut) = self.plan.crash_after_bytes {
            if self.accepted >= cut {
                st.errors_fired += 1;
                return Err(other("sim: device gone (crash)"));
            }
            let room = (cut - self.accepted) as usize;
            if n > room {
                n = room;
            }
        }
        if n < buf.len() {
            st.short_writes += 1;
        }
        let mut sink = self.sink.borrow_mut();
        let start = self.pos as usize;
        if sink.len() < start + n {
            sink.resize(start + n, 0);
        }
        sink[start..start + n].copy_from_slice(&buf[..n]);
        self.pos += n as u64;
        self.accepted += n as u64;
        st.bytes_written += n as u64;
        Ok(n)
    }

    fn flush(&mut self) -> io::Result<()> {
        let mut st = self.stats.borrow_mut();
        st.flush_calls += 1;
        if self.plan.flush_error {
            st.errors_fired += 1;
            return Err(other("sim: injected flush error"));
        }
        Ok(())
    }
}

impl Seek for SimWriter {
    fn seek(&mut self, pos: SeekFrom) -> io::Result<u64> {
        let mut st = self.stats.borrow_mut();
        st.seeks += 1;
        let len = self.sink.borrow().len() as u64;
        let new: i128 = match pos {
            SeekFrom::Start(p) => p as i128,
            SeekFrom::End(d) => len as i128 + d as i128,
            SeekFrom::Current(d) => self.pos as i128 + d as i128,
        };
        if new < 0 || new > (1i128 << 40) {
            return Err(io::Error::new(io::ErrorKind::InvalidInput, "sim: bad seek"));
        }
        self.pos = new as u64;
        Ok(self.pos)
    }
}

/// Faults applied to stored bytes between a write and a later read.
#[derive(Clone, Debug, Serialize, Deserialize, PartialEq)]
pub enum ByteFault {
    Truncate(usize),
    FlipBit { pos: usize, bit: u8 },
    SetByte { pos: usize, val: u8 },
    ZeroRange { start: usize, len: usize },
    DupBlock { start: usize, len: usize, at: usize },
    /// Replace `len` bytes at `pos` with `bytes` (structure-aware lies:
    /// overwritten length fields and the like).
    Replace { pos: usize, len: usize, bytes: Vec<u8> },
    /// Insert bytes at `pos`.
    Insert { pos: usize, bytes: Vec<u8> },
}

pub fn apply_faults(data: &[u8], faults: &[ByteFault]) -> Vec<u8> {
    let mut out = data.to_vec();
    for f in faults {
        match f {
            ByteFault::Truncate(n) => out.truncate(*n),
            ByteFault::FlipBit { pos, bit } => {
                if let Some(b) = out.get_mut(*pos) {
                    *b ^= 1 << (bit & 7);
                }
            }
            ByteFault::SetByte { pos, val } => {
                if let Some(b) = out.get_mut(*pos) {
                    *b = *val;
                }
            }
            ByteFault::ZeroRange { start, len } => {
                let end = (start + len).min(out.len());
                for b in out.iter_mut().take(end).skip(*start) {
                    *b = 0;
                }
            }
            ByteFault::DupBlock { start, len, at } => {
                if *start <= out.len() {
                    let end = (start + len).min(out.len());
                    let block = out[*start..end].to_vec();
                    let at = (*at).min(out.len());
                    out.splice(at..at, block);
                }
            }
            ByteFault::Replace { pos, len, bytes } => {
                if *pos <= out.len() {
                    let end = (pos + len).min(out.len());
                    out.splice(*pos..end, bytes.iter().copied());
                }
            }
            ByteFault::Insert { pos, bytes } => {
                let pos = (*pos).min(out.len());
                out.splice(pos..pos, bytes.iter().copied());
            }
        }
    }
    out
}

/// LEB128 encoding used by protobuf.
pub fn encode_varint(mut v: u64) -> Vec<u8> {
    let mut out = Vec::new();
    loop {
        let b = (v & 0x7f) as u8;
        v >>= 7;
        if v == 0 {
            out.push(b);
            return out;
        }
        out.push(b | 0x80);
    }
}

#[cfg(test)]
mod tests {
    use super::*;

    #[test]
    fn simfile_short_reads_and_errors() {
        let data = Rc::new((0u8..100).collect::<Vec<u8>>());
        let plan = ReadPlan { max_read: 7, interrupt_calls: vec![1], error_at_offset: Some(20), ..Default::default() };
        let (mut f, st) = SimFile::new(data, plan);
        let mut buf = [0u8; 16];
        assert_eq!(f.read(&mut buf).unwrap(), 7);
        assert_eq!(f.read(&mut buf).unwrap_err().kind(), io::ErrorKind::Interrupted);
        assert_eq!(f.read(&mut buf).unwrap(), 7);
        assert_eq!(f.read(&mut buf).unwrap(), 6);
        assert!(f.read(&mut buf).is_err());
        assert_eq!(st.borrow().bytes_served, 20);
        assert_eq!(f.seek(SeekFrom::Current(-5)).unwrap(), 15);
        assert!(f.seek(SeekFrom::Current(-50)).is_err());
    }

    #[test]
    fn writer_crash() {
        let (mut w, sink, _st) = SimWriter::new(WritePlan { crash_after_bytes: Some(5), ..Default::default() });
        assert_eq!(w.write(b"abcdefgh").unwrap(), 5);
        assert!(w.write(b"fgh").is_err());
        assert_eq!(&*sink.borrow(), b"abcde");
    }

    #[test]
    fn faults() {
        let d = [1u8, 2, 3, 4];
        assert_eq!(apply_faults(&d, &[ByteFault::Truncate(2)]), vec![1, 2]);
        assert_eq!(apply_faults(&d, &[ByteFault::Replace { pos: 1, len: 2, bytes: vec![9] }]), vec![1, 9, 4]);
        assert_eq!(encode_varint(300), vec![0xac, 0x02]);
    }
}
