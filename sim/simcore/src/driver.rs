//! Batch runner shared by all engines: seeded case derivation, worker
//! *processes* (so that aborts and hangs are attributed to the case in flight),
//! minimisation, replay files, known-findings handling and evidence.

use crate::rng::{case_seed, fnv64, mix, splitmix64};
use serde::de::DeserializeOwned;
use serde::{Deserialize, Serialize};
use serde_json::{json, Value};
use std::collections::{BTreeMap, BTreeSet};
use std::io::{BufRead, BufReader, Write};
use std::os::unix::fs::FileExt;
use std::path::{Path, PathBuf};
use std::process::{Command, Stdio};
use std::sync::mpsc;
use std::time::{Duration, Instant};

#[derive(Clone, Copy, Debug, PartialEq, Eq)]
pub enum Tier {
    Quick,
    Thorough,
}

impl Tier {
    pub fn parse(s: &str) -> Tier {
        match s {
            "quick" => Tier::Quick,
            "thorough" => Tier::Thorough,
            _ => harness_error(&format!("unknown tier {s}")),
        }
    }
    pub fn name(self) -> &'static str {
        match self {
            Tier::Quick => "quick",
            Tier::Thorough => "thorough",
        }
    }
}

#[derive(Clone, Debug, Serialize, Deserialize, PartialEq)]
pub struct Violation {
    /// Bounded-vocabulary class: (violation class / entry point / condition).
    pub key: String,
    pub detail: String,
}

impl Violation {
    pub fn new(key: impl Into<String>, detail: impl Into<String>) -> Violation {
        Violation { key: key.into(), detail: detail.into() }
    }
}

#[derive(Clone, Debug, Default)]
pub struct Outcome {
    pub violation: Option<Violation>,
    /// At least one fault fired / >= 2 context switches / >= 1 non-default decision.
    pub nontrivial: bool,
    /// Logical simulation steps (device operations, scheduling points, history ops).
    pub steps: u64,
    /// Hash of the event log of this execution (determinism diff).
    pub trace_hash: u64,
    /// Number of system executions this case performed (>= 1).
    pub executions: u64,
    /// With a violation: an equivalent, fully explicit form of the case (same type, as JSON) that
    /// reproduces this execution without re-drawing anything (e.g. the recorded schedule instead of a
    /// scheduler seed). It replaces the case in reports, so that the master process never has to execute
    /// the system under test itself to obtain it.
    pub explicit_case: Option<Value>,
}

/// Per-worker accumulator for fault-fire counts and reach probes.
#[derive(Default)]
pub struct Ctx {
    pub counters: BTreeMap<String, u64>,
}

impl Ctx {
    pub fn count(&mut self, name: &str) {
        self.add(name, 1);
    }
    pub fn add(&mut self, name: &str, n: u64) {
        if n == 0 {
            self.counters.entry(name.to_string()).or_insert(0);
            return;
        }
        *self.counters.entry(name.to_string()).or_insert(0) += n;
    }
    /// Make a probe show up (at zero) even if it never fires.
    pub fn declare(&mut self, name: &str) {
        self.counters.entry(name.to_string()).or_insert(0);
    }
}

#[derive(Clone, Debug)]
pub struct EngineInfo {
    pub level: &'static str,
    pub rule: String,
    pub real_components: Vec<String>,
    pub stub_components: Vec<String>,
    pub assumptions: Vec<String>,
    pub technique: String,
    /// Seconds a single case may take before the master declares a hang.
    pub hang_secs: u64,
    /// Probes (counter names) that are expected to be non-zero after a run.
    pub expected_probes: Vec<String>,
}

pub trait Engine: Sized {
    type Case: Serialize + DeserializeOwned + Clone;

    fn name() -> &'static str;
    fn engine_id() -> u64;
    fn properties() -> Vec<&'static str>;

    fn new(property: &str, tier: Tier, verif_seed: u64) -> Self;
    fn info(&self) -> EngineInfo;

    /// Number of cases in this tier. Cases are `make_case(0..n)`.
    fn num_cases(&self) -> u64;
    /// True when `0..num_cases` enumerates a finite space completely.
    fn exhaustive(&self) -> bool {
        false
    }
    /// The explicit case for `index`. Must be a pure function of its arguments.
    fn make_case(&self, index: u64, seed: u64) -> Self::Case;
    fn run_case(&self, case: &Self::Case, ctx: &mut Ctx) -> Outcome;
    /// Candidate reductions of a failing case, simplest first.
    fn shrink(&self, _case: &Self::Case) -> Vec<Self::Case> {
        Vec::new()
    }
    /// What goes into the evidence `samples` list for a case.
    fn sample(&self, case: &Self::Case) -> Value {
        truncate_json(serde_json::to_value(case).unwrap_or(Value::Null), 4000)
    }
}

pub fn truncate_json(v: Value, max: usize) -> Value {
    let s = v.to_string();
    if s.len() <= max {
        v
    } else {
        let mut cut = max;
        while !s.is_char_boundary(cut) {
            cut -= 1;
        }
        json!({ "truncated_json": format!("{}…", &s[..cut]) })
    }
}

pub fn harness_error(msg: &str) -> ! {
    eprintln!("HARNESS-ERROR: {msg}");
    std::process::exit(2);
}

/// Where replay files go: `$VERIF_REPLAYS_DIR` (used when evaluating seeded changes) or `<root>/replays`.
fn replays_root() -> PathBuf {
    std::env::var("VERIF_REPLAYS_DIR").ok().filter(|s| !s.is_empty()).map(PathBuf::from).unwrap_or_else(|| verif_root().join("replays"))
}

pub fn verif_root() -> PathBuf {
    PathBuf::from(std::env::var("VERIF_ROOT").unwrap_or_else(|_| "/verif".to_string()))
}

fn verif_seed_from_env() -> u64 {
    match std::env::var("VERIF_SEED") {
        Ok(s) if !s.trim().is_empty() => s
            .trim()
            .parse::<u64>()
            .or_else(|_| s.trim().parse::<i64>().map(|v| v as u64))
            .unwrap_or_else(|_| fnv64(s.as_bytes())),
        _ => 1,
    }
}

struct Args {
    cmd: String,
    property: String,
    tier: Tier,
    seed: u64,
    workers: usize,
    start: u64,
    stride: u64,
    state_file: Option<PathBuf>,
    dump: Option<PathBuf>,
    max_cases: Option<u64>,
    file: Option<PathBuf>,
    no_evidence: bool,
    /// A second build of the same engine (e.g. without overflow checks): `tag=path`.
    alt_exe: Option<(String, PathBuf)>,
    /// Build tag of a replay/eval target.
    build: Option<String>,
}

fn parse_args<E: Engine>() -> Args {
    let argv: Vec<String> = std::env::args().collect();
    if argv.len() < 2 {
        harness_error("usage: <engine> batch|worker|replay|eval ...");
    }
    let mut a = Args {
        cmd: argv[1].clone(),
        property: E::properties()[0].to_string(),
        tier: Tier::parse(&std::env::var("VERIF_TIER").unwrap_or_else(|_| "quick".into())),
        seed: verif_seed_from_env(),
        workers: std::env::var("VERIF_WORKERS").ok().and_then(|s| s.parse().ok()).unwrap_or(16),
        start: 0,
        stride: 1,
        state_file: None,
        dump: std::env::var("VERIF_DUMP").ok().filter(|s| !s.is_empty()).map(PathBuf::from),
        max_cases: std::env::var("VERIF_MAX_CASES").ok().and_then(|s| s.parse().ok()),
        file: None,
        no_evidence: std::env::var("VERIF_NO_EVIDENCE").map(|v| v == "1").unwrap_or(false),
        alt_exe: None,
        build: None,
    };
    let mut i = 2;
    while i < argv.len() {
        let k = argv[i].as_str();
        let mut val = || {
            i += 1;
            argv.get(i).cloned().unwrap_or_else(|| harness_error("missing argument value"))
        };
        match k {
            "--property" => a.property = val(),
            "--tier" => a.tier = Tier::parse(&val()),
            "--seed" => a.seed = val().parse().unwrap_or_else(|_| harness_error("bad --seed")),
            "--workers" => a.workers = val().parse().unwrap_or_else(|_| harness_error("bad --workers")),
            "--start" => a.start = val().parse().unwrap_or_else(|_| harness_error("bad --start")),
            "--stride" => a.stride = val().parse().unwrap_or_else(|_| harness_error("bad --stride")),
            "--state-file" => a.state_file = Some(PathBuf::from(val())),
            "--dump" => a.dump = Some(PathBuf::from(val())),
            "--max-cases" => a.max_cases = Some(val().parse().unwrap_or_else(|_| harness_error("bad --max-cases"))),
            "--no-evidence" => a.no_evidence = true,
            "--alt-exe" => {
                let v = val();
                let (t, p) = v.split_once('=').unwrap_or_else(|| harness_error("--alt-exe wants tag=path"));
                a.alt_exe = Some((t.to_string(), PathBuf::from(p)));
            }
            "--build" => a.build = Some(val()),
            other if !other.starts_with("--") && a.file.is_none() => a.file = Some(PathBuf::from(other)),
            other => harness_error(&format!("unknown argument {other}")),
        }
        i += 1;
    }
    if !E::properties().contains(&a.property.as_str()) {
        harness_error(&format!("engine {} does not serve property {}", E::name(), a.property));
    }
    a
}

pub fn main<E: Engine>() -> ! {
    crate::catch::install_hook();
    let args = parse_args::<E>();
    let code = match args.cmd.as_str() {
        "batch" => batch::<E>(&args),
        "worker" => worker::<E>(&args),
        "replay" => replay::<E>(&args),
        "eval" => eval_cmd::<E>(&args),
        "serve" => serve_cmd::<E>(&args),
        other => harness_error(&format!("unknown command {other}")),
    };
    std::process::exit(code);
}

// ---------------------------------------------------------------- worker

#[derive(Serialize, Deserialize)]
struct WorkerViolation {
    #[serde(default)]
    tag: String,
    index: u64,
    case_seed: u64,
    case: Value,
    violation: Violation,
}

#[derive(Serialize, Deserialize, Default)]
struct WorkerDelta {
    evals: u64,
    executions: u64,
    steps: u64,
    digest: u64,
    counters: BTreeMap<String, u64>,
    /// (case_hash) of non-trivial cases since the last delta.
    nontrivial_hashes: Vec<u64>,
    samples: Vec<Value>,
    more_violations: BTreeMap<String, u64>,
}

fn case_hash<C: Serialize>(case: &C) -> u64 {
    fnv64(&serde_json::to_vec(case).unwrap_or_default())
}

fn worker<E: Engine>(args: &Args) -> i32 {
    let engine = E::new(&args.property, args.tier, args.seed);
    let n = args.max_cases.map(|m| m.min(engine.num_cases())).unwrap_or(engine.num_cases());
    let state = args.state_file.as_ref().map(|p| {
        std::fs::OpenOptions::new().write(true).create(true).truncate(false).open(p).unwrap_or_else(|e| harness_error(&format!("state file: {e}")))
    });
    let mut dump = args.dump.as_ref().map(|p| {
        std::io::BufWriter::new(
            std::fs::OpenOptions::new().append(true).create(true).open(p).unwrap_or_else(|e| harness_error(&format!("dump file: {e}"))),
        )
    });
    let stdout = std::io::stdout();
    let mut ctx = Ctx::default();
    let mut delta = WorkerDelta::default();
    let mut seen_keys: BTreeMap<String, u64> = BTreeMap::new();
    let mut samples_emitted = 0usize;
    let mut since_flush = 0u64;
    let mut last_flush = Instant::now();
    let mut index = args.start;
    let mut tick: u64 = 0;
    while index < n {
        tick += 1;
        if let Some(f) = &state {
            let mut b = [0u8; 16];
            b[..8].copy_from_slice(&index.to_le_bytes());
            b[8..].copy_from_slice(&tick.to_le_bytes());
            let _ = f.write_at(&b, 0);
        }
        let cs = case_seed(args.seed, E::engine_id(), index);
        let case = engine.make_case(index, cs);
        let out = engine.run_case(&case, &mut ctx);
        let ch = case_hash(&case);
        delta.evals += 1;
        delta.executions += out.executions.max(1);
        delta.steps += out.steps;
        let vkey = out.violation.as_ref().map(|v| fnv64(v.key.as_bytes())).unwrap_or(0);
        delta.digest = delta.digest.wrapping_add(splitmix64(mix(&[index, ch, out.trace_hash, vkey])));
        if out.nontrivial {
            delta.nontrivial_hashes.push(ch);
        }
        if let Some(d) = dump.as_mut() {
            let _ = writeln!(d, "{} {:016x} {:016x} {}", index, ch, out.trace_hash, out.violation.as_ref().map(|v| v.key.as_str()).unwrap_or("-"));
        }
        if samples_emitted < 2 && (out.nontrivial || index == args.start) && args.start < 2 * args.stride.max(1) {
            delta.samples.push(json!({"case_index": index, "case": engine.sample(&case)}));
            samples_emitted += 1;
        }
        let explicit_case = out.explicit_case;
        if let Some(v) = out.violation {
            let c = seen_keys.entry(v.key.clone()).or_insert(0);
            *c += 1;
            if *c <= 1 && seen_keys.len() <= 40 {
                let wv = WorkerViolation { tag: own_build_tag(), index, case_seed: cs, case: explicit_case.unwrap_or_else(|| serde_json::to_value(&case).unwrap()), violation: v };
                let mut o = stdout.lock();
                let _ = writeln!(o, "V {}", serde_json::to_string(&wv).unwrap());
                let _ = o.flush();
            } else {
                *delta.more_violations.entry(v.key).or_insert(0) += 1;
            }
        }
        since_flush += 1;
        if since_flush >= 50_000 || (since_flush >= 8 && last_flush.elapsed() > Duration::from_millis(100)) {
            flush_delta(&mut delta, &mut ctx);
            since_flush = 0;
            last_flush = Instant::now();
        }
        index += args.stride.max(1);
    }
    flush_delta(&mut delta, &mut ctx);
    if let Some(d) = dump.as_mut() {
        let _ = d.flush();
    }
    let mut o = stdout.lock();
    let _ = writeln!(o, "E");
    let _ = o.flush();
    0
}

fn flush_delta(delta: &mut WorkerDelta, ctx: &mut Ctx) {
    delta.counters = std::mem::take(&mut ctx.counters);
    // keep declared names alive so that zero probes are visible
    for k in delta.counters.keys() {
        ctx.counters.insert(k.clone(), 0);
    }
    let d = std::mem::take(delta);
    let stdout = std::io::stdout();
    let mut o = stdout.lock();
    let _ = writeln!(o, "D {}", serde_json::to_string(&d).unwrap());
    let _ = o.flush();
}

// ---------------------------------------------------------------- master

enum Msg {
    Line(usize, String),
    Exit(usize, Option<i32>, bool /* killed for hang */),
}

struct Found {
    tag: String,
    index: u64,
    case_seed: u64,
    case: Value,
    violation: Violation,
}

struct KnownFindings {
    known: Vec<(String, String, String)>, // property, key, what
    fixed: Vec<(String, String)>,
}

fn load_known_findings() -> KnownFindings {
    let mut kf = KnownFindings { known: vec![], fixed: vec![] };
    let path = verif_root().join("known_findings.txt");
    let Ok(text) = std::fs::read_to_string(&path) else { return kf };
    for line in text.lines() {
        let line = line.trim();
        let (status, rest) = if let Some(r) = line.strip_prefix("known:") {
            ("known", r)
        } else if let Some(r) = line.strip_prefix("fixed:") {
            ("fixed", r)
        } else {
            continue;
        };
        let mut property = String::new();
        let mut key = String::new();
        let mut what = Vec::new();
        for tok in rest.split_whitespace() {
            if let Some(p) = tok.strip_prefix("property=") {
                property = p.to_string();
            } else if let Some(k) = tok.strip_prefix("key=") {
                key = k.to_string();
            } else {
                what.push(tok);
            }
        }
        if status == "known" {
            kf.known.push((property, key, what.join(" ")));
        } else {
            kf.fixed.push((property, key));
        }
    }
    kf
}

fn sanitise(s: &str) -> String {
    let mut out: String = s.chars().map(|c| if c.is_ascii_alphanumeric() || c == '-' || c == '_' || c == '.' { c } else { '_' }).collect();
    out.truncate(100);
    out
}

pub fn own_build_tag() -> String {
    std::env::var("VERIF_BUILD_TAG").unwrap_or_else(|_| "checked".to_string())
}

fn exe_for(args: &Args, tag: &str) -> PathBuf {
    if tag == own_build_tag() {
        return self_exe();
    }
    match &args.alt_exe {
        Some((t, p)) if t == tag => p.clone(),
        _ => harness_error(&format!("no executable for build tag '{tag}' (pass --alt-exe {tag}=<path>)")),
    }
}

fn self_exe() -> PathBuf {
    std::env::current_exe().unwrap_or_else(|e| harness_error(&format!("current_exe: {e}")))
}

fn batch<E: Engine>(args: &Args) -> i32 {
    let t0 = Instant::now();
    let engine = E::new(&args.property, args.tier, args.seed);
    let info = engine.info();
    let total = args.max_cases.map(|m| m.min(engine.num_cases())).unwrap_or(engine.num_cases());
    let mut workers = args.workers.max(1).min(total.max(1) as usize);
    // With a second build, half of the worker slots run it; both halves cover every case.
    let own_tag = own_build_tag();
    let lanes: usize = if args.alt_exe.is_some() { 2 } else { 1 };
    if lanes == 2 {
        workers = (workers / 2).max(1) * 2;
    }
    let stride = workers / lanes;
    let slot_tag = |w: usize| -> String {
        if lanes == 2 && w >= stride { args.alt_exe.as_ref().unwrap().0.clone() } else { own_tag.clone() }
    };
    println!(
        "[{}] property={} tier={} VERIF_SEED={} cases={} workers={}",
        E::name(), args.property, args.tier.name(), args.seed, total, workers
    );
    // per-worker progress files live on tmpfs when there is one (a write per case)
    let tmp = if Path::new("/dev/shm").is_dir() { PathBuf::from("/dev/shm/verif-sim") } else { verif_root().join("replays").join("tmp") };
    let _ = std::fs::create_dir_all(&tmp);
    let run_tag = format!("{}-{}-{}", E::name(), args.property, std::process::id());
    let state_path = |w: usize| tmp.join(format!("{run_tag}-w{w}.state"));
    let dump_path = |w: usize| tmp.join(format!("{run_tag}-w{w}.dump"));

    let (tx, rx) = mpsc::channel::<Msg>();
    let spawn = |w: usize, start: u64, tx: mpsc::Sender<Msg>| {
        let sp = state_path(w);
        let _ = std::fs::write(&sp, [0xffu8; 16]);
        let tag = slot_tag(w);
        let mut cmd = Command::new(exe_for(args, &tag));
        cmd.env("VERIF_BUILD_TAG", &tag);
        cmd.arg("worker")
            .arg("--property").arg(&args.property)
            .arg("--tier").arg(args.tier.name())
            .arg("--seed").arg(args.seed.to_string())
            .arg("--start").arg(start.to_string())
            .arg("--stride").arg(stride.to_string())
            .arg("--state-file").arg(&sp);
        if let Some(m) = args.max_cases {
            cmd.arg("--max-cases").arg(m.to_string());
        }
        if args.dump.is_some() {
            cmd.arg("--dump").arg(dump_path(w));
        }
        cmd.stdout(Stdio::piped()).stderr(if std::env::var("VERIF_VERBOSE").is_ok() { Stdio::inherit() } else { Stdio::null() }).stdin(Stdio::null());
        let mut child = cmd.spawn().unwrap_or_else(|e| harness_error(&format!("spawn worker: {e}")));
        let out = child.stdout.take().unwrap();
        let hang_secs = info.hang_secs.max(1);
        std::thread::spawn(move || {
            // reader thread
            let (ltx, lrx) = mpsc::channel::<Option<String>>();
            std::thread::spawn(move || {
                let r = BufReader::new(out);
                for line in r.lines().map_while(Result::ok) {
                    if ltx.send(Some(line)).is_err() {
                        return;
                    }
                }
                let _ = ltx.send(None);
            });
            let mut last_state = [0u8; 16];
            let mut last_change = Instant::now();
            let mut killed = false;
            loop {
                match lrx.recv_timeout(Duration::from_millis(500)) {
                    Ok(Some(line)) => {
                        let _ = tx.send(Msg::Line(w, line));
                    }
                    Ok(None) => break,
                    Err(mpsc::RecvTimeoutError::Timeout) => {}
                    Err(mpsc::RecvTimeoutError::Disconnected) => break,
                }
                if let Ok(b) = std::fs::read(&sp) {
                    if b.len() == 16 && b[..] != last_state[..] {
                        last_state.copy_from_slice(&b);
                        last_change = Instant::now();
                    }
                }
                if last_change.elapsed() > Duration::from_secs(hang_secs) && !killed {
                    let _ = child.kill();
                    killed = true;
                }
            }
            let status = child.wait().ok();
            let code = status.and_then(|s| s.code());
            let _ = tx.send(Msg::Exit(w, code, killed));
        });
    };
    for w in 0..workers {
        spawn(w, (w % stride) as u64, tx.clone());
    }

    let mut agg = WorkerDelta::default();
    let mut nontrivial: BTreeSet<u64> = BTreeSet::new();
    let mut found: BTreeMap<String, Found> = BTreeMap::new();
    let mut key_counts: BTreeMap<String, u64> = BTreeMap::new();
    let mut clean_end = vec![false; workers];
    let mut live = workers;
    let mut restarts = 0u64;
    while live > 0 {
        let msg = rx.recv().unwrap_or_else(|_| harness_error("worker channel closed"));
        match msg {
            Msg::Line(w, line) => {
                if let Some(rest) = line.strip_prefix("D ") {
                    let d: WorkerDelta = serde_json::from_str(rest).unwrap_or_else(|e| harness_error(&format!("bad delta from worker {w}: {e}")));
                    agg.evals += d.evals;
                    agg.executions += d.executions;
                    agg.steps += d.steps;
                    agg.digest = agg.digest.wrapping_add(d.digest);
                    for (k, v) in d.counters {
                        *agg.counters.entry(k).or_insert(0) += v;
                    }
                    nontrivial.extend(d.nontrivial_hashes);
                    if agg.samples.len() < 4 {
                        agg.samples.extend(d.samples);
                    }
                    for (k, v) in d.more_violations {
                        *key_counts.entry(k).or_insert(0) += v;
                    }
                } else if let Some(rest) = line.strip_prefix("V ") {
                    let v: WorkerViolation = serde_json::from_str(rest).unwrap_or_else(|e| harness_error(&format!("bad violation from worker {w}: {e}")));
                    *key_counts.entry(v.violation.key.clone()).or_insert(0) += 1;
                    if std::env::var("VERIF_VERBOSE").is_ok() {
                        eprintln!("found: case {} key={} detail={}", v.index, v.violation.key, v.violation.detail);
                    }
                    let e = found.entry(v.violation.key.clone());
                    let f = Found { tag: if v.tag.is_empty() { own_tag.clone() } else { v.tag }, index: v.index, case_seed: v.case_seed, case: v.case, violation: v.violation };
                    match e {
                        std::collections::btree_map::Entry::Vacant(s) => {
                            s.insert(f);
                        }
                        std::collections::btree_map::Entry::Occupied(mut o) => {
                            if f.index < o.get().index {
                                o.insert(f);
                            }
                        }
                    }
                } else if line == "E" {
                    clean_end[w] = true;
                }
            }
            Msg::Exit(w, code, killed) => {
                if clean_end[w] && code == Some(0) {
                    live -= 1;
                    continue;
                }
                if code == Some(2) {
                    harness_error(&format!("worker {w} reported a harness error"));
                }
                // abort or hang: attribute to the case in flight, restart after it
                let b = std::fs::read(state_path(w)).unwrap_or_default();
                if b.len() != 16 || b[..8] == [0xff; 8] {
                    harness_error(&format!("worker {w} died (code {code:?}) before starting a case"));
                }
                let idx = u64::from_le_bytes(b[..8].try_into().unwrap());
                let cs = case_seed(args.seed, E::engine_id(), idx);
                let case = engine.make_case(idx, cs);
                let (key, detail) = if killed {
                    (format!("{}/hang", args.property), format!("no progress for {}s in case {idx}; worker killed", info.hang_secs))
                } else {
                    (format!("{}/abort", args.property), format!("worker process died with status {code:?} (signal/abort) in case {idx}"))
                };
                agg.evals += 1;
                *key_counts.entry(key.clone()).or_insert(0) += 1;
                let f = Found { tag: slot_tag(w), index: idx, case_seed: cs, case: serde_json::to_value(&case).unwrap(), violation: Violation { key: key.clone(), detail } };
                found.entry(key).or_insert(f);
                restarts += 1;
                let next = idx + stride as u64;
                if next < total && restarts < 20_000 {
                    clean_end[w] = false;
                    spawn(w, next, tx.clone());
                } else {
                    live -= 1;
                }
            }
        }
    }
    // Regression cases: minimised replays of earlier findings (fixed defects,
    // seeded breakages) kept under regress/<property>/ are re-run on every batch.
    let mut regress_run = 0u64;
    let reg_dir = verif_root().join("regress").join(&args.property);
    if let Ok(rd) = std::fs::read_dir(&reg_dir) {
        let mut files: Vec<PathBuf> = rd.filter_map(|e| e.ok().map(|e| e.path())).filter(|p| p.extension().map(|x| x == "json").unwrap_or(false)).collect();
        files.sort();
        let mut servers: BTreeMap<String, EvalServer> = BTreeMap::new();
        for (i, f) in files.iter().enumerate() {
            let Ok(text) = std::fs::read_to_string(f) else { continue };
            let Ok(v) = serde_json::from_str::<Value>(&text) else { harness_error(&format!("regress file {} is not JSON", f.display())) };
            if v["engine"].as_str() != Some(E::name()) {
                continue;
            }
            let Ok(case) = serde_json::from_value::<E::Case>(v["case"].clone()) else { harness_error(&format!("regress file {}: case does not parse", f.display())) };
            let mut tags = vec![v["build"].as_str().unwrap_or(&own_tag).to_string()];
            if lanes == 2 {
                for t in [own_tag.clone(), args.alt_exe.as_ref().unwrap().0.clone()] {
                    if !tags.contains(&t) {
                        tags.push(t);
                    }
                }
            } else {
                tags = vec![own_tag.clone()];
            }
            for tag in tags {
                let server = servers.entry(tag.clone()).or_insert_with(|| EvalServer::new(args, &tag, info.hang_secs));
                regress_run += 1;
                agg.evals += 1;
                agg.executions += 1;
                if let Some(viol) = server.eval(&case) {
                    *key_counts.entry(viol.key.clone()).or_insert(0) += 1;
                    found.entry(viol.key.clone()).or_insert(Found { tag: tag.clone(), index: u64::MAX - i as u64, case_seed: 0, case: v["case"].clone(), violation: viol });
                }
            }
        }
    }
    let explore_s = t0.elapsed().as_secs_f64();

    // determinism dump
    if let Some(dp) = &args.dump {
        let mut lines: Vec<(u64, String)> = Vec::new();
        for w in 0..workers {
            if let Ok(t) = std::fs::read_to_string(dump_path(w)) {
                for l in t.lines() {
                    let idx: u64 = l.split(' ').next().and_then(|s| s.parse().ok()).unwrap_or(0);
                    lines.push((idx, l.to_string()));
                }
            }
            let _ = std::fs::remove_file(dump_path(w));
        }
        lines.sort();
        let text: String = lines.into_iter().map(|(_, l)| l + "\n").collect();
        std::fs::write(dp, text).unwrap_or_else(|e| harness_error(&format!("write dump: {e}")));
    }
    for w in 0..workers {
        let _ = std::fs::remove_file(state_path(w));
    }

    // triage
    let kf = load_known_findings();
    let mut exit = 0;
    let mut known_lines = Vec::new();
    let mut violation_records = Vec::new();
    let mut minimised = 0;
    for (key, f) in &found {
        if let Some((_, _, what)) = kf.known.iter().find(|(p, k, _)| p == &args.property && k == key) {
            println!("KNOWN-FINDING: property={} key={} {}", args.property, key, what);
            // keep an (unminimised) replay of the first occurrence next to the others
            let dir = replays_root().join(&args.property);
            let _ = std::fs::create_dir_all(&dir);
            let replay = json!({
                "property": args.property, "engine": E::name(), "build": f.tag, "tier": args.tier.name(), "verif_seed": args.seed,
                "case_index": f.index, "case_seed": f.case_seed, "finding_key": key, "known_finding": true,
                "violation": {"key": f.violation.key, "detail": f.violation.detail}, "case": f.case,
            });
            let _ = std::fs::write(dir.join(format!("known-{}.json", sanitise(key))), serde_json::to_string_pretty(&replay).unwrap());
            known_lines.push(json!({"key": key, "what": what, "occurrences": key_counts.get(key).copied().unwrap_or(1)}));
            continue;
        }
        exit = 1;
        let case: E::Case = serde_json::from_value(f.case.clone()).unwrap_or_else(|e| harness_error(&format!("case round trip: {e}")));
        let isolate = key.ends_with("/abort") || key.ends_with("/hang") || f.tag != own_tag;
        let (min_case, _min_v, evals, from_size) = if minimised < 6 {
            minimised += 1;
            minimise::<E>(&engine, args, &f.tag, &case, &f.violation, isolate, info.hang_secs)
        } else {
            (case.clone(), f.violation.clone(), 0, 0)
        };
        let dir = replays_root().join(&args.property);
        let _ = std::fs::create_dir_all(&dir);
        let path = if f.index > u64::MAX / 2 {
            dir.join(format!("{}-s{}-regress{}.json", sanitise(key), args.seed, u64::MAX - f.index))
        } else {
            dir.join(format!("{}-s{}-i{}.json", sanitise(key), args.seed, f.index))
        };
        // The minimised file must reproduce in a fresh process. If it does not, the system under test
        // behaved differently on identical input (uninitialised memory, a data race): try again a few
        // times, fall back to the case as first observed, and if even that does not fail again report the
        // observation as what it is. (The harness itself is deterministic on the unchanged tree: det.sh.)
        let attempt = |c: &E::Case, n: usize| -> Option<(usize, Violation)> {
            for k in 0..n {
                if let Some(v) = eval_in_subprocess::<E>(args, &f.tag, c, info.hang_secs) {
                    if v.key == *key {
                        return Some((k + 1, v));
                    }
                }
            }
            None
        };
        let (final_case, final_v, repro) = match attempt(&min_case, 1) {
            Some((_, v)) => (min_case.clone(), v, "every evaluation so far".to_string()),
            None => match attempt(&min_case, 6) {
                Some((k, v)) => (min_case.clone(), v, format!("evaluation {} of the minimised case (earlier ones did not fail: the code under test is not deterministic)", k + 1)),
                None => match attempt(&case, 6) {
                    Some((k, v)) => (case.clone(), v, format!("evaluation {k} of the case as first observed (the minimised case did not fail again: the code under test is not deterministic)")),
                    None => (case.clone(), f.violation.clone(), "NOT reproduced in 13 fresh evaluations; observed once in the batch: the code under test behaved differently on identical input".to_string()),
                },
            },
        };
        let min_v = final_v;
        let to_size = serde_json::to_string(&final_case).map(|s| s.len()).unwrap_or(0);
        let replay = json!({
            "property": args.property,
            "engine": E::name(),
            "build": f.tag,
            "tier": args.tier.name(),
            "verif_seed": args.seed,
            "case_index": f.index,
            "case_seed": f.case_seed,
            "finding_key": key,
            "violation": {"key": min_v.key, "detail": min_v.detail},
            "original_detail": f.violation.detail,
            "reproduced": repro,
            "case": serde_json::to_value(&final_case).unwrap(),
            "minimised_from": {"json_bytes": from_size, "to_json_bytes": to_size, "evaluations": evals},
        });
        std::fs::write(&path, serde_json::to_string_pretty(&replay).unwrap()).unwrap_or_else(|e| harness_error(&format!("write replay: {e}")));
        if !repro.starts_with("every") {
            println!("NOTE: {key}: {repro}");
        }
        println!("VIOLATION property={} replay={}", args.property, path.display());
        println!("  key={} occurrences={} detail={}", key, key_counts.get(key).copied().unwrap_or(1), min_v.detail);
        violation_records.push(json!({"key": key, "replay": path.display().to_string(), "occurrences": key_counts.get(key).copied().unwrap_or(1), "detail": min_v.detail}));
    }

    let wall = t0.elapsed().as_secs_f64();
    let zero_probes: Vec<String> = info
        .expected_probes
        .iter()
        .filter(|p| agg.counters.get(*p).copied().unwrap_or(0) == 0)
        .cloned()
        .collect();
    for p in &zero_probes {
        println!("WARNING: reach probe '{p}' stayed at zero");
    }
    let mut faults: BTreeMap<String, u64> = BTreeMap::new();
    let mut probes: BTreeMap<String, u64> = BTreeMap::new();
    for (k, v) in &agg.counters {
        if let Some(f) = k.strip_prefix("fault:") {
            faults.insert(f.to_string(), *v);
        } else {
            probes.insert(k.clone(), *v);
        }
    }
    println!(
        "[{}] evaluations={} executions={} distinct_nontrivial={} steps={} digest={:016x} explore_s={:.1} wall_s={:.1} violations={} known={}",
        E::name(), agg.evals, agg.executions, nontrivial.len(), agg.steps, agg.digest, explore_s, wall, violation_records.len(), known_lines.len()
    );
    if !args.no_evidence && args.dump.is_none() {
        let mut samples = agg.samples.clone();
        if samples.is_empty() && total > 0 {
            let cs = case_seed(args.seed, E::engine_id(), 0);
            samples.push(json!({"case_index": 0, "case": engine.sample(&engine.make_case(0, cs))}));
        }
        let evidence = json!({
            "property_id": args.property,
            "tier": args.tier.name(),
            "seed": args.seed as i64,
            "level": info.level,
            "coverage": {
                "evaluations": agg.evals,
                "distinct_nontrivial": nontrivial.len(),
                "rule": info.rule,
                "samples": samples,
                "exhaustive": engine.exhaustive(),
                "system_executions": agg.executions,
                "simulated_steps": agg.steps,
                "runs_per_hour": if explore_s > 0.0 { (agg.executions as f64 / explore_s * 3600.0) as u64 } else { 0 },
                "fault_kinds_fired": faults,
                "reach_probes": probes,
                "zero_probes": zero_probes,
                "run_digest": format!("{:016x}", agg.digest),
                "workers": workers,
                "worker_restarts_after_abort_or_hang": restarts,
                "regression_replays_run": regress_run,
                "components_real": info.real_components,
                "components_stub": info.stub_components,
                "technique": info.technique,
                "known_findings_seen": known_lines,
                "violations_reported": violation_records,
                "engine": E::name(),
            },
            "assumptions": info.assumptions,
            "wall_s": wall,
            "violations": violation_records.len(),
        });
        let dir = verif_root().join("evidence");
        let _ = std::fs::create_dir_all(&dir);
        let p = dir.join(format!("{}.json", args.property));
        std::fs::write(&p, serde_json::to_string_pretty(&evidence).unwrap()).unwrap_or_else(|e| harness_error(&format!("write evidence: {e}")));
    }
    if agg.evals == 0 {
        harness_error("no case was evaluated");
    }
    exit
}

// ---------------------------------------------------------------- eval / replay / minimise

fn run_guarded<E: Engine>(engine: &E, case: &E::Case) -> Option<Violation> {
    let mut ctx = Ctx::default();
    match crate::catch::catch(|| engine.run_case(case, &mut ctx)) {
        Ok(o) => o.violation,
        Err(p) => harness_error(&format!("engine panicked outside its own catch: {} at {}", p.message, p.location)),
    }
}

fn eval_in_subprocess<E: Engine>(args: &Args, tag: &str, case: &E::Case, hang_secs: u64) -> Option<Violation> {
    let tmp = verif_root().join("replays").join("tmp");
    let _ = std::fs::create_dir_all(&tmp);
    let path = tmp.join(format!("eval-{}-{}.json", std::process::id(), fnv64(&serde_json::to_vec(case).unwrap())));
    std::fs::write(&path, serde_json::to_vec(&json!({"case": case})).unwrap()).unwrap_or_else(|e| harness_error(&format!("write eval file: {e}")));
    let mut child = Command::new(exe_for(args, tag))
        .env("VERIF_BUILD_TAG", tag)
        .arg("eval")
        .arg("--property").arg(&args.property)
        .arg("--tier").arg(args.tier.name())
        .arg("--seed").arg(args.seed.to_string())
        .arg(&path)
        .stdout(Stdio::piped())
        .stderr(if std::env::var("VERIF_VERBOSE").is_ok() { Stdio::inherit() } else { Stdio::null() })
        .stdin(Stdio::null())
        .spawn()
        .unwrap_or_else(|e| harness_error(&format!("spawn eval: {e}")));
    let t0 = Instant::now();
    let mut killed = false;
    let status = loop {
        match child.try_wait() {
            Ok(Some(s)) => break s,
            Ok(None) => {
                if t0.elapsed() > Duration::from_secs(hang_secs.max(1)) {
                    let _ = child.kill();
                    killed = true;
                    break child.wait().unwrap();
                }
                std::thread::sleep(Duration::from_millis(5));
            }
            Err(e) => harness_error(&format!("wait eval: {e}")),
        }
    };
    let mut out = String::new();
    if let Some(mut so) = child.stdout.take() {
        use std::io::Read;
        let _ = so.read_to_string(&mut out);
    }
    let _ = std::fs::remove_file(&path);
    if killed {
        return Some(Violation::new(format!("{}/hang", args.property), "no result within the watchdog".to_string()));
    }
    match status.code() {
        Some(0) | Some(1) => {
            for line in out.lines() {
                if let Some(rest) = line.strip_prefix("R ") {
                    let v: Option<Violation> = serde_json::from_str(rest).unwrap_or_else(|e| harness_error(&format!("bad eval output: {e}")));
                    return v;
                }
            }
            harness_error("eval produced no result line")
        }
        Some(2) => harness_error("eval reported a harness error"),
        other => Some(Violation::new(format!("{}/abort", args.property), format!("process died with status {other:?}"))),
    }
}

/// `serve`: read one case (JSON) per line on stdin, answer `R <violation|null>`.
fn serve_cmd<E: Engine>(args: &Args) -> i32 {
    let engine = E::new(&args.property, args.tier, args.seed);
    let stdin = std::io::stdin();
    let stdout = std::io::stdout();
    for line in stdin.lock().lines().map_while(Result::ok) {
        let v: Value = serde_json::from_str(&line).unwrap_or_else(|e| harness_error(&format!("serve: parse: {e}")));
        let case: E::Case = serde_json::from_value(v).unwrap_or_else(|e| harness_error(&format!("serve: case: {e}")));
        // A shrink candidate may be malformed for the engine; that is a rejected
        // candidate, not a verdict (batch, eval and replay stay strict).
        let mut ctx = Ctx::default();
        let r = match crate::catch::catch(|| engine.run_case(&case, &mut ctx)) {
            Ok(o) => o.violation,
            Err(p) => Some(Violation::new("HARNESS-PANIC", format!("{} at {}", p.message, p.location))),
        };
        let mut o = stdout.lock();
        let _ = writeln!(o, "R {}", serde_json::to_string(&r).unwrap());
        let _ = o.flush();
    }
    0
}

/// A persistent evaluation process used for minimisation: a candidate that
/// hangs or aborts kills only the server, which is then restarted.
struct EvalServer {
    exe: PathBuf,
    tag: String,
    property: String,
    tier: Tier,
    seed: u64,
    hang_secs: u64,
    child: Option<(std::process::Child, std::process::ChildStdin, mpsc::Receiver<Option<String>>)>,
}

impl EvalServer {
    fn new(args: &Args, tag: &str, hang_secs: u64) -> EvalServer {
        EvalServer { exe: exe_for(args, tag), tag: tag.to_string(), property: args.property.clone(), tier: args.tier, seed: args.seed, hang_secs, child: None }
    }
    fn ensure(&mut self) {
        if self.child.is_some() {
            return;
        }
        let mut child = Command::new(&self.exe)
            .env("VERIF_BUILD_TAG", &self.tag)
            .arg("serve")
            .arg("--property").arg(&self.property)
            .arg("--tier").arg(self.tier.name())
            .arg("--seed").arg(self.seed.to_string())
            .stdin(Stdio::piped())
            .stdout(Stdio::piped())
            .stderr(Stdio::null())
            .spawn()
            .unwrap_or_else(|e| harness_error(&format!("spawn serve: {e}")));
        let stdin = child.stdin.take().unwrap();
        let out = child.stdout.take().unwrap();
        let (tx, rx) = mpsc::channel();
        std::thread::spawn(move || {
            for line in BufReader::new(out).lines().map_while(Result::ok) {
                if tx.send(Some(line)).is_err() {
                    return;
                }
            }
            let _ = tx.send(None);
        });
        self.child = Some((child, stdin, rx));
    }
    fn kill(&mut self) {
        if let Some((mut c, _, _)) = self.child.take() {
            let _ = c.kill();
            let _ = c.wait();
        }
    }
    fn eval<C: Serialize>(&mut self, case: &C) -> Option<Violation> {
        self.ensure();
        let line = serde_json::to_string(case).unwrap();
        let (_, stdin, rx) = self.child.as_mut().unwrap();
        if writeln!(stdin, "{line}").and_then(|_| stdin.flush()).is_err() {
            self.kill();
            return Some(Violation::new(format!("{}/abort", self.property), "evaluation process died".to_string()));
        }
        match rx.recv_timeout(Duration::from_secs(self.hang_secs.max(1))) {
            Ok(Some(l)) => match l.strip_prefix("R ") {
                Some(rest) => serde_json::from_str(rest).unwrap_or_else(|e| harness_error(&format!("serve: bad answer: {e}"))),
                None => harness_error("serve: unexpected output"),
            },
            Ok(None) | Err(mpsc::RecvTimeoutError::Disconnected) => {
                let code = self.child.as_mut().and_then(|(c, _, _)| c.wait().ok()).and_then(|s| s.code());
                self.kill();
                if code == Some(2) {
                    harness_error("serve reported a harness error");
                }
                Some(Violation::new(format!("{}/abort", self.property), format!("evaluation process died with status {code:?}")))
            }
            Err(mpsc::RecvTimeoutError::Timeout) => {
                self.kill();
                Some(Violation::new(format!("{}/hang", self.property), "no result within the watchdog".to_string()))
            }
        }
    }
}

impl Drop for EvalServer {
    fn drop(&mut self) {
        self.kill();
    }
}

fn eval_cmd<E: Engine>(args: &Args) -> i32 {
    let path = args.file.clone().unwrap_or_else(|| harness_error("eval needs a file"));
    let text = std::fs::read_to_string(&path).unwrap_or_else(|e| harness_error(&format!("read {}: {e}", path.display())));
    let v: Value = serde_json::from_str(&text).unwrap_or_else(|e| harness_error(&format!("parse: {e}")));
    let case: E::Case = serde_json::from_value(v["case"].clone()).unwrap_or_else(|e| harness_error(&format!("case: {e}")));
    let engine = E::new(&args.property, args.tier, args.seed);
    let r = run_guarded(&engine, &case);
    println!("R {}", serde_json::to_string(&r).unwrap());
    if r.is_some() { 1 } else { 0 }
}

fn replay<E: Engine>(args: &Args) -> i32 {
    let path = args.file.clone().unwrap_or_else(|| harness_error("replay needs a file"));
    let text = std::fs::read_to_string(&path).unwrap_or_else(|e| harness_error(&format!("read {}: {e}", path.display())));
    let v: Value = serde_json::from_str(&text).unwrap_or_else(|e| harness_error(&format!("parse: {e}")));
    let property = v["property"].as_str().unwrap_or(&args.property).to_string();
    let tier = v["tier"].as_str().map(Tier::parse).unwrap_or(args.tier);
    let seed = v["verif_seed"].as_u64().unwrap_or(args.seed);
    let case: E::Case = serde_json::from_value(v["case"].clone()).unwrap_or_else(|e| harness_error(&format!("case: {e}")));
    let tag = v["build"].as_str().map(|s| s.to_string()).or(args.build.clone()).unwrap_or_else(own_build_tag);
    let a2 = Args { cmd: "eval".into(), property: property.clone(), tier, seed, workers: 1, start: 0, stride: 1, state_file: None, dump: None, max_cases: None, file: None, no_evidence: true, alt_exe: args.alt_exe.clone(), build: None };
    let engine = E::new(&property, tier, seed);
    let hang = engine.info().hang_secs;
    // always in a fresh process, so aborts and hangs replay too
    // a file recorded as not failing on every evaluation (non-deterministic code under test) gets more tries
    let tries = if v["reproduced"].as_str().map(|s| !s.starts_with("every")).unwrap_or(false) { 12 } else { 1 };
    let mut r = None;
    for _ in 0..tries {
        r = eval_in_subprocess::<E>(&a2, &tag, &case, hang);
        if r.is_some() {
            break;
        }
    }
    match r {
        Some(v) => {
            println!("VIOLATION property={} replay={}", property, path.display());
            println!("  key={} detail={}", v.key, v.detail);
            1
        }
        None => {
            println!("replay: no violation (property {property} holds on this case)");
            0
        }
    }
}

fn minimise<E: Engine>(engine: &E, args: &Args, tag: &str, case: &E::Case, violation: &Violation, isolate: bool, hang_secs: u64) -> (E::Case, Violation, u64, usize) {
    let from_size = serde_json::to_string(case).map(|s| s.len()).unwrap_or(0);
    let mut cur = case.clone();
    let mut cur_v = violation.clone();
    let mut evals = 0u64;
    // hangs cost `hang_secs` per confirming evaluation: keep that search short
    let budget: u64 = if violation.key.ends_with("/hang") { 40 } else if isolate { 600 } else { 4000 };
    let mut server = EvalServer::new(args, tag, hang_secs);
    let t0 = std::time::Instant::now();
    'outer: loop {
        let cands = engine.shrink(&cur);
        for cand in cands {
            // The wall-clock bound only limits how far a replay is reduced, never whether it is reported.
            if evals >= budget || t0.elapsed().as_secs() > 300 {
                break 'outer;
            }
            evals += 1;
            if let Some(v) = server.eval(&cand) {
                if v.key == violation.key {
                    cur = cand;
                    cur_v = v;
                    continue 'outer;
                }
            }
        }
        break;
    }
    (cur, cur_v, evals, from_size)
}

pub fn write_json_file(path: &Path, v: &Value) {
    std::fs::write(path, serde_json::to_string_pretty(v).unwrap()).unwrap_or_else(|e| harness_error(&format!("write {}: {e}", path.display())));
}
