//! sim_iter — C07: tensor iterators yield exactly the logical elements in order.
//!
//! Rule (b): seeded and exhaustive consumption *histories* over stateful
//! iterators. Rule (a): the simulator plays rayon's `bridge`: it owns a pool
//! of producer pieces, decides where each is split (through the public
//! `Producer::split_at` of `ParIter<I>`), which simulated worker consumes which
//! piece, in which direction and in which order.

mod model;
mod pieces;

use model::{Canon, LayoutM};
use pieces::{De, Fw, It, Piece, Sp};
use rayon::iter::{IntoParallelIterator, ParallelIterator};
use rten_base::iter::{range_chunks, range_chunks_exact};
use rten_tensor::iterators::{Lane, LaneMut};
use rten_tensor::layout::MutLayout;
use rten_tensor::prelude::*;
use rten_tensor::storage::{ViewData, ViewMutData};
use rten_tensor::{NdTensorView, NdTensorViewMut, TensorBase, TensorView, TensorViewMut};
use serde::{Deserialize, Serialize};
use simcore::catch::catch;
use simcore::driver::{self, Ctx, Engine, EngineInfo, Outcome, Tier, Violation};
use simcore::rng::{fnv64, mix, Rng};
use std::collections::{BTreeSet, VecDeque};

#[derive(Clone, Debug, Serialize, Deserialize, PartialEq)]
pub enum Kind {
    Iter,
    IterMut,
    Lanes { dim: usize },
    LanesMut { dim: usize },
    Inner { n: usize },
    InnerNd { n: usize },
    InnerMut { n: usize },
    InnerMutNd { n: usize },
    AxisIter { dim: usize },
    AxisIterMut { dim: usize },
    AxisChunks { dim: usize, chunk: usize },
    AxisChunksMut { dim: usize, chunk: usize },
    RangeChunks { start: usize, end: usize, chunk: usize },
    RangeChunksExact { start: usize, end: usize, chunk: usize },
    Lane { dim: usize, j: usize },
    LaneMut { dim: usize, j: usize },
}

impl Kind {
    fn name(&self) -> &'static str {
        match self {
            Kind::Iter => "Iter",
            Kind::IterMut => "IterMut",
            Kind::Lanes { .. } => "Lanes",
            Kind::LanesMut { .. } => "LanesMut",
            Kind::Inner { .. } => "InnerIter",
            Kind::InnerNd { .. } => "InnerIterNd",
            Kind::InnerMut { .. } => "InnerIterMut",
            Kind::InnerMutNd { .. } => "InnerIterMutNd",
            Kind::AxisIter { .. } => "AxisIter",
            Kind::AxisIterMut { .. } => "AxisIterMut",
            Kind::AxisChunks { .. } => "AxisChunks",
            Kind::AxisChunksMut { .. } => "AxisChunksMut",
            Kind::RangeChunks { .. } => "RangeChunks",
            Kind::RangeChunksExact { .. } => "RangeChunksExact",
            Kind::Lane { .. } => "Lane",
            Kind::LaneMut { .. } => "LaneMut",
        }
    }
    fn is_mut(&self) -> bool {
        matches!(self, Kind::IterMut | Kind::LanesMut { .. } | Kind::InnerMut { .. } | Kind::InnerMutNd { .. } | Kind::AxisIterMut { .. } | Kind::AxisChunksMut { .. } | Kind::LaneMut { .. })
    }
}

#[derive(Clone, Debug, Serialize, Deserialize, PartialEq)]
pub enum Op {
    Next,
    NextBack,
    Nth(usize),
    NthBack(usize),
    /// Split at `min(index, len)` — rayon splits at `len/2`; adaptors such as
    /// take/skip/zip/chunks split anywhere in `0..=len`.
    Split(usize),
    SplitMid,
    FoldRest,
    RevRest,
    StepByRest(usize),
}

#[derive(Clone, Debug, Serialize, Deserialize, PartialEq)]
pub struct Step {
    /// Index into the pool of live pieces (taken modulo its size).
    pub piece: usize,
    pub op: Op,
}

#[derive(Clone, Debug, Serialize, Deserialize)]
pub struct IterCase {
    pub layout: LayoutM,
    pub kind: Kind,
    /// Build the view with a static-rank layout (`NdLayout<N>`) where possible.
    pub nd: bool,
    pub history: Vec<Step>,
    pub note: String,
}

// ------------------------------------------------------------ reference model

enum Model {
    Seq(VecDeque<Canon>),
    /// Chunk iterators: rows `front..back` remain; items are maximal chunks.
    Chunks { front: usize, back: usize, chunk: usize, layout: Option<(LayoutM, usize)> },
}

impl Model {
    fn mk(&self, a: usize, b: usize) -> Canon {
        match self {
            Model::Chunks { layout: Some((l, axis)), .. } => l.rows(*axis, a, b).canon_view(),
            _ => vec![a as i64, b as i64],
        }
    }
    fn len(&self) -> usize {
        match self {
            Model::Seq(q) => q.len(),
            Model::Chunks { front, back, chunk, .. } => (back - front).div_ceil(*chunk),
        }
    }
    fn pop_front(&mut self) -> Option<Canon> {
        match self {
            Model::Seq(q) => q.pop_front(),
            Model::Chunks { front, back, chunk, .. } => {
                if *front >= *back {
                    return None;
                }
                let n = (*chunk).min(*back - *front);
                let (a, b) = (*front, *front + n);
                *front += n;
                Some(self.mk(a, b))
            }
        }
    }
    fn pop_back(&mut self) -> Option<Canon> {
        match self {
            Model::Seq(q) => q.pop_back(),
            Model::Chunks { front, back, chunk, .. } => {
                if *front >= *back {
                    return None;
                }
                let n = (*chunk).min(*back - *front);
                let (a, b) = (*back - n, *back);
                *back -= n;
                Some(self.mk(a, b))
            }
        }
    }
    fn split(self, i: usize) -> (Model, Model) {
        match self {
            Model::Seq(mut q) => {
                let r = q.split_off(i);
                (Model::Seq(q), Model::Seq(r))
            }
            Model::Chunks { front, back, chunk, layout } => {
                let mid = (front + i * chunk).min(back);
                (Model::Chunks { front, back: mid, chunk, layout: layout.clone() }, Model::Chunks { front: mid, back, chunk, layout })
            }
        }
    }
}

// ------------------------------------------------------------ item conversion

fn c_elem(x: &i32) -> It {
    It { c: vec![*x as i64], addrs: vec![] }
}
fn c_elem_mut(x: &mut i32) -> It {
    It { c: vec![*x as i64], addrs: vec![x as *mut i32 as usize] }
}
fn c_lane(l: Lane<'_, i32>) -> It {
    let mut c: Canon = vec![l.len() as i64];
    c.extend(l.map(|x| *x as i64));
    It { c, addrs: vec![] }
}
fn c_lane_mut(l: LaneMut<'_, i32>) -> It {
    let mut c: Canon = vec![l.len() as i64];
    let mut addrs = Vec::new();
    for x in l {
        c.push(*x as i64);
        addrs.push(x as *mut i32 as usize);
    }
    It { c, addrs }
}
fn c_view<L: MutLayout + Clone>(v: TensorBase<ViewData<'_, i32>, L>) -> It {
    let mut c: Canon = vec![v.ndim() as i64];
    c.extend((0..v.ndim()).map(|d| v.size(d) as i64));
    c.extend(v.iter().map(|x| *x as i64));
    It { c, addrs: vec![] }
}
fn c_view_mut<L: MutLayout + Clone>(mut v: TensorBase<ViewMutData<'_, i32>, L>) -> It {
    let mut c: Canon = vec![v.ndim() as i64];
    c.extend((0..v.ndim()).map(|d| v.size(d) as i64));
    let mut addrs = Vec::new();
    for x in v.iter_mut() {
        c.push(*x as i64);
        addrs.push(x as *mut i32 as usize);
    }
    It { c, addrs }
}
fn c_range(r: std::ops::Range<usize>) -> It {
    It { c: vec![r.start as i64, r.end as i64], addrs: vec![] }
}

// ------------------------------------------------------------ building pieces

struct Views<'a> {
    d: Option<TensorView<'a, i32>>,
    n1: Option<NdTensorView<'a, i32, 1>>,
    n2: Option<NdTensorView<'a, i32, 2>>,
    n3: Option<NdTensorView<'a, i32, 3>>,
    n4: Option<NdTensorView<'a, i32, 4>>,
}

struct ViewsMut<'a> {
    d: Option<TensorViewMut<'a, i32>>,
    n1: Option<NdTensorViewMut<'a, i32, 1>>,
    n2: Option<NdTensorViewMut<'a, i32, 2>>,
    n3: Option<NdTensorViewMut<'a, i32, 3>>,
    n4: Option<NdTensorViewMut<'a, i32, 4>>,
}

fn arr<const N: usize>(v: &[usize]) -> [usize; N] {
    let mut a = [0usize; N];
    a.copy_from_slice(v);
    a
}

fn build_views<'a>(l: &LayoutM, nd: bool, data: &'a [i32]) -> Views<'a> {
    let s = &data[l.offset.min(data.len())..];
    let mut v = Views { d: None, n1: None, n2: None, n3: None, n4: None };
    match (nd, l.ndim()) {
        (true, 1) => v.n1 = NdTensorView::from_slice_with_strides(arr::<1>(&l.shape), s, arr::<1>(&l.strides)).ok(),
        (true, 2) => v.n2 = NdTensorView::from_slice_with_strides(arr::<2>(&l.shape), s, arr::<2>(&l.strides)).ok(),
        (true, 3) => v.n3 = NdTensorView::from_slice_with_strides(arr::<3>(&l.shape), s, arr::<3>(&l.strides)).ok(),
        (true, 4) => v.n4 = NdTensorView::from_slice_with_strides(arr::<4>(&l.shape), s, arr::<4>(&l.strides)).ok(),
        _ => v.d = TensorView::from_slice_with_strides(&l.shape, s, &l.strides).ok(),
    }
    v
}

fn build_views_mut<'a>(l: &LayoutM, nd: bool, data: &'a mut [i32]) -> ViewsMut<'a> {
    let off = l.offset.min(data.len());
    let s = &mut data[off..];
    let mut v = ViewsMut { d: None, n1: None, n2: None, n3: None, n4: None };
    match (nd, l.ndim()) {
        (true, 1) => v.n1 = NdTensorViewMut::from_data_with_strides(arr::<1>(&l.shape), s, arr::<1>(&l.strides)).ok(),
        (true, 2) => v.n2 = NdTensorViewMut::from_data_with_strides(arr::<2>(&l.shape), s, arr::<2>(&l.strides)).ok(),
        (true, 3) => v.n3 = NdTensorViewMut::from_data_with_strides(arr::<3>(&l.shape), s, arr::<3>(&l.strides)).ok(),
        (true, 4) => v.n4 = NdTensorViewMut::from_data_with_strides(arr::<4>(&l.shape), s, arr::<4>(&l.strides)).ok(),
        _ => v.d = TensorViewMut::from_data_with_strides(&l.shape, s, &l.strides).ok(),
    }
    v
}

type BP<'a> = Box<dyn Piece<'a> + 'a>;

macro_rules! each_view {
    ($v:expr, |$x:ident| $body:expr) => {{
        if let Some($x) = &$v.d {
            Some($body)
        } else if let Some($x) = &$v.n1 {
            Some($body)
        } else if let Some($x) = &$v.n2 {
            Some($body)
        } else if let Some($x) = &$v.n3 {
            Some($body)
        } else if let Some($x) = &$v.n4 {
            Some($body)
        } else {
            None
        }
    }};
}
macro_rules! each_view_mut {
    ($v:expr, |$x:ident| $body:expr) => {{
        if let Some($x) = &mut $v.d {
            Some($body)
        } else if let Some($x) = &mut $v.n1 {
            Some($body)
        } else if let Some($x) = &mut $v.n2 {
            Some($body)
        } else if let Some($x) = &mut $v.n3 {
            Some($body)
        } else if let Some($x) = &mut $v.n4 {
            Some($body)
        } else {
            None
        }
    }};
}

fn make_piece<'a>(kind: &Kind, v: &Views<'a>) -> Option<BP<'a>> {
    match kind {
        Kind::Iter => each_view!(v, |x| Box::new(Sp { it: x.iter(), f: c_elem }) as BP<'a>),
        Kind::Lanes { dim } => each_view!(v, |x| Box::new(Sp { it: x.lanes(*dim), f: c_lane }) as BP<'a>),
        Kind::Lane { dim, j } => each_view!(v, |x| Box::new(De { it: x.lanes(*dim).nth(*j)?, f: c_elem }) as BP<'a>),
        Kind::Inner { n } => each_view!(v, |x| Box::new(Sp { it: x.inner_iter_dyn(*n), f: c_view }) as BP<'a>),
        Kind::InnerNd { n } => match n {
            1 => each_view!(v, |x| Box::new(Sp { it: x.inner_iter::<1>(), f: c_view }) as BP<'a>),
            2 => each_view!(v, |x| Box::new(Sp { it: x.inner_iter::<2>(), f: c_view }) as BP<'a>),
            _ => each_view!(v, |x| Box::new(Sp { it: x.inner_iter::<3>(), f: c_view }) as BP<'a>),
        },
        Kind::AxisIter { dim } => {
            if let Some(x) = &v.d {
                Some(Box::new(Sp { it: x.axis_iter(*dim), f: c_view }) as BP<'a>)
            } else if let Some(x) = &v.n2 {
                Some(Box::new(Sp { it: x.axis_iter(*dim), f: c_view }) as BP<'a>)
            } else if let Some(x) = &v.n3 {
                Some(Box::new(Sp { it: x.axis_iter(*dim), f: c_view }) as BP<'a>)
            } else if let Some(x) = &v.n4 {
                Some(Box::new(Sp { it: x.axis_iter(*dim), f: c_view }) as BP<'a>)
            } else if let Some(x) = &v.n1 {
                Some(Box::new(Sp { it: x.axis_iter(*dim), f: c_view }) as BP<'a>)
            } else {
                None
            }
        }
        Kind::AxisChunks { dim, chunk } => each_view!(v, |x| Box::new(Sp { it: x.axis_chunks(*dim, *chunk), f: c_view }) as BP<'a>),
        Kind::RangeChunks { start, end, chunk } => Some(Box::new(Sp { it: range_chunks(*start..*end, *chunk), f: c_range })),
        Kind::RangeChunksExact { start, end, chunk } => Some(Box::new(Fw { it: range_chunks_exact(*start..*end, *chunk), f: c_range })),
        _ => None,
    }
}

fn make_piece_mut<'v, 'a: 'v>(kind: &Kind, v: &'v mut ViewsMut<'a>) -> Option<BP<'v>> {
    match kind {
        Kind::IterMut => each_view_mut!(v, |x| Box::new(Sp { it: x.iter_mut(), f: c_elem_mut }) as BP<'v>),
        Kind::LanesMut { dim } => each_view_mut!(v, |x| Box::new(Sp { it: x.lanes_mut(*dim), f: c_lane_mut }) as BP<'v>),
        Kind::LaneMut { dim, j } => each_view_mut!(v, |x| Box::new(De { it: x.lanes_mut(*dim).nth(*j)?, f: c_elem_mut }) as BP<'v>),
        Kind::InnerMut { n } => each_view_mut!(v, |x| Box::new(Sp { it: x.inner_iter_dyn_mut(*n), f: c_view_mut }) as BP<'v>),
        Kind::InnerMutNd { n } => match n {
            1 => each_view_mut!(v, |x| Box::new(Sp { it: x.inner_iter_mut::<1>(), f: c_view_mut }) as BP<'v>),
            2 => each_view_mut!(v, |x| Box::new(Sp { it: x.inner_iter_mut::<2>(), f: c_view_mut }) as BP<'v>),
            _ => each_view_mut!(v, |x| Box::new(Sp { it: x.inner_iter_mut::<3>(), f: c_view_mut }) as BP<'v>),
        },
        Kind::AxisIterMut { dim } => each_view_mut!(v, |x| Box::new(Sp { it: x.axis_iter_mut(*dim), f: c_view_mut }) as BP<'v>),
        Kind::AxisChunksMut { dim, chunk } => each_view_mut!(v, |x| Box::new(Sp { it: x.axis_chunks_mut(*dim, *chunk), f: c_view_mut }) as BP<'v>),
        _ => None,
    }
}

fn expected(kind: &Kind, l: &LayoutM) -> Option<Model> {
    let seq = |v: Vec<Canon>| Some(Model::Seq(v.into()));
    match kind {
        Kind::Iter | Kind::IterMut => seq(l.expect_elements()),
        Kind::Lanes { dim } | Kind::LanesMut { dim } => {
            if *dim >= l.ndim() {
                return None;
            }
            seq(l.expect_lanes(*dim))
        }
        Kind::Lane { dim, j } | Kind::LaneMut { dim, j } => {
            if *dim >= l.ndim() {
                return None;
            }
            let lanes = l.expect_lanes(*dim);
            let lane = lanes.get(*j)?;
            seq(lane[1..].iter().map(|v| vec![*v]).collect())
        }
        Kind::Inner { n } | Kind::InnerNd { n } | Kind::InnerMut { n } | Kind::InnerMutNd { n } => {
            if *n > l.ndim() {
                return None;
            }
            seq(l.expect_inner(*n))
        }
        Kind::AxisIter { dim } | Kind::AxisIterMut { dim } => {
            if *dim >= l.ndim() {
                return None;
            }
            seq(l.expect_axis(*dim))
        }
        Kind::AxisChunks { dim, chunk } | Kind::AxisChunksMut { dim, chunk } => {
            if *dim >= l.ndim() || *chunk == 0 {
                return None;
            }
            Some(Model::Chunks { front: 0, back: l.shape[*dim], chunk: *chunk, layout: Some((l.clone(), *dim)) })
        }
        Kind::RangeChunks { start, end, chunk } => {
            if *chunk == 0 || end < start {
                return None;
            }
            Some(Model::Chunks { front: *start, back: *end, chunk: *chunk, layout: None })
        }
        Kind::RangeChunksExact { start, end, chunk } => {
            if *chunk == 0 || end < start {
                return None;
            }
            let n = (end - start) / chunk;
            seq((0..n).map(|i| vec![(start + i * chunk) as i64, (start + (i + 1) * chunk) as i64]).collect())
        }
    }
}

// ------------------------------------------------------------ the simulation

struct Sim<'a> {
    pieces: Vec<(BP<'a>, Model)>,
    seen_addrs: BTreeSet<usize>,
    kind_label: String,
    is_mut: bool,
    trace: Vec<u64>,
    steps: u64,
    splits: u64,
    layout_note: String,
}

fn short(c: &Option<Canon>) -> String {
    match c {
        None => "None".into(),
        Some(v) if v.len() <= 12 => format!("{v:?}"),
        Some(v) => format!("{:?}…(+{})", &v[..12], v.len() - 12),
    }
}

impl<'a> Sim<'a> {
    fn viol(&self, class: &str, op: &str, detail: String) -> Violation {
        // bounded vocabulary: rev() is next_back, step_by() is nth
        let op_key = match op {
            "rev" => "next_back",
            "step_by" => "nth",
            o if o.starts_with("split_at") => "split_at",
            o => o,
        };
        Violation::new(format!("C07/{class}/{}/{op_key}", self.kind_label), format!("[{}] {detail}", self.layout_note))
    }

    fn check_item(&mut self, got: Option<It>, want: Option<Canon>, op: &str, ctx_note: &str) -> Result<(), Violation> {
        let got_c = got.as_ref().map(|g| g.c.clone());
        self.trace.push(fnv64(format!("{op}:{got_c:?}").as_bytes()));
        if got_c != want {
            return Err(self.viol("wrong-item", op, format!("{op} returned {} but the logical sequence has {} there ({ctx_note})", short(&got_c), short(&want))));
        }
        if self.is_mut {
            if let Some(g) = got {
                for a in g.addrs {
                    if !self.seen_addrs.insert(a) {
                        return Err(self.viol("mut-alias", op, format!("{op} handed out a mutable reference to an element that was already handed out ({ctx_note})")));
                    }
                }
            }
        }
        Ok(())
    }

    fn check_len(&self, idx: usize, op: &str) -> Result<(), Violation> {
        let (p, m) = &self.pieces[idx];
        let want = m.len();
        let (len, hint) = match catch(|| (p.len(), p.hint())) {
            Ok(x) => x,
            Err(pi) => return Err(self.viol("panic", "len", format!("len()/size_hint() panicked after {op}: {} at {}", pi.message, pi.location))),
        };
        if len != want || hint != (want, Some(want)) {
            return Err(self.viol("wrong-len", op, format!("after {op}: len()={len}, size_hint()={hint:?}, but exactly {want} items remain")));
        }
        Ok(())
    }

    fn drain_check(&mut self, got: Result<Vec<It>, simcore::catch::PanicInfo>, want: Vec<Canon>, op: &str) -> Result<(), Violation> {
        let got = match got {
            Ok(g) => g,
            Err(pi) => return Err(self.viol("panic", op, format!("{op} panicked: {} at {}", pi.message, pi.location))),
        };
        let n = got.len().max(want.len());
        let mut gi = got.into_iter();
        let mut wi = want.into_iter();
        for k in 0..n {
            self.check_item(gi.next(), wi.next(), op, &format!("item {k} of the drained rest"))?;
        }
        Ok(())
    }

    fn step(&mut self, s: &Step) -> Result<(), Violation> {
        if self.pieces.is_empty() {
            return Ok(());
        }
        let idx = s.piece % self.pieces.len();
        self.steps += 1;
        let can_back = self.pieces[idx].0.can_back();
        let can_split = self.pieces[idx].0.can_split();
        let consumed_front = match &self.pieces[idx].1 {
            Model::Seq(_) => false,
            _ => false,
        };
        let _ = consumed_front;
        let opname = match &s.op {
            Op::Next => "next",
            Op::NextBack => "next_back",
            Op::Nth(_) => "nth",
            Op::NthBack(_) => "nth_back",
            Op::Split(_) | Op::SplitMid => "split_at",
            Op::FoldRest => "fold",
            Op::RevRest => "rev",
            Op::StepByRest(_) => "step_by",
        };
        match &s.op {
            Op::Next | Op::NextBack | Op::Nth(_) | Op::NthBack(_) => {
                let back = matches!(s.op, Op::NextBack | Op::NthBack(_));
                if back && !can_back {
                    return Ok(());
                }
                let (p, m) = &mut self.pieces[idx];
                let before = m.len();
                let (got, want) = match &s.op {
                    Op::Next => (catch(|| p.next()), m.pop_front()),
                    Op::NextBack => (catch(|| p.next_back()), m.pop_back()),
                    Op::Nth(k) => {
                        let g = catch(|| p.nth(*k));
                        for _ in 0..*k {
                            m.pop_front();
                        }
                        (g, m.pop_front())
                    }
                    Op::NthBack(k) => {
                        let g = catch(|| p.nth_back(*k));
                        for _ in 0..*k {
                            m.pop_back();
                        }
                        (g, m.pop_back())
                    }
                    _ => unreachable!(),
                };
                let got = match got {
                    Ok(g) => g,
                    Err(pi) => return Err(self.viol("panic", opname, format!("{opname} panicked with {before} items remaining: {} at {}", pi.message, pi.location))),
                };
                self.check_item(got, want, opname, &format!("piece {idx}, {before} items remained"))?;
                self.check_len(idx, opname)?;
            }
            Op::Split(_) | Op::SplitMid => {
                if !can_split {
                    return Ok(());
                }
                let (p, m) = self.pieces.remove(idx);
                let len = m.len();
                let at = match &s.op {
                    Op::Split(i) => (*i).min(len),
                    _ => len / 2,
                };
                self.splits += 1;
                let halves = catch(move || p.split(at));
                let (l, r) = match halves {
                    Ok(h) => h,
                    Err(pi) => return Err(self.viol("panic", "split_at", format!("split_at({at}) panicked on a piece with {len} items: {} at {}", pi.message, pi.location))),
                };
                let (ml, mr) = m.split(at);
                self.trace.push(mix(&[0x5911, at as u64, len as u64]));
                self.pieces.insert(idx, (l, ml));
                self.pieces.insert(idx + 1, (r, mr));
                self.check_len(idx, "split_at(left)")?;
                self.check_len(idx + 1, "split_at(right)")?;
            }
            Op::FoldRest | Op::RevRest | Op::StepByRest(_) => {
                if matches!(s.op, Op::RevRest) && !can_back {
                    return Ok(());
                }
                let (p, mut m) = self.pieces.remove(idx);
                let mut want = Vec::new();
                match &s.op {
                    Op::FoldRest => {
                        while let Some(c) = m.pop_front() {
                            want.push(c);
                        }
                    }
                    Op::RevRest => {
                        while let Some(c) = m.pop_back() {
                            want.push(c);
                        }
                    }
                    Op::StepByRest(k) => {
                        let k = (*k).max(1);
                        let mut i = 0;
                        while let Some(c) = m.pop_front() {
                            if i % k == 0 {
                                want.push(c);
                            }
                            i += 1;
                        }
                    }
                    _ => unreachable!(),
                }
                let op = s.op.clone();
                let got = catch(move || match op {
                    Op::FoldRest => p.fold_rest(),
                    Op::RevRest => p.rev_rest(),
                    Op::StepByRest(k) => p.step_by_rest(k),
                    _ => unreachable!(),
                });
                self.drain_check(got, want, opname)?;
            }
        }
        Ok(())
    }

    /// Whatever is still live is handed to simulated workers and consumed to the end.
    fn finish(&mut self) -> Result<(), Violation> {
        let mut k = 0usize;
        while !self.pieces.is_empty() {
            let idx = k % self.pieces.len();
            let op = if k % 3 == 1 && self.pieces[idx].0.can_back() { Op::RevRest } else { Op::FoldRest };
            self.step(&Step { piece: idx, op })?;
            k += 1;
        }
        Ok(())
    }
}

fn run_history<'a>(piece: BP<'a>, model: Model, label: String, layout_note: String, is_mut: bool, history: &[Step]) -> (Option<Violation>, Sim<'a>) {
    let mut sim = Sim { pieces: vec![(piece, model)], seen_addrs: BTreeSet::new(), kind_label: label, is_mut, trace: vec![], steps: 0, splits: 0, layout_note };
    if let Err(v) = sim.check_len(0, "creation") {
        return (Some(v), sim);
    }
    for s in history {
        if let Err(v) = sim.step(s) {
            return (Some(v), sim);
        }
    }
    let r = sim.finish().err();
    (r, sim)
}

// ------------------------------------------------------------ engine

struct IterEngine {
    exh_layouts: Vec<LayoutM>,
    /// (layout index, kind, nd) combos of the exhaustive sub-space
    exh_combos: Vec<(usize, Kind, bool)>,
    exh_hist: u64,
    exh_maxlen: usize,
    seeded: u64,
}

const EXH_OPS: usize = 5; // Next, NextBack, Nth(1), SplitMid->left, SplitMid->right

fn exh_history_count(maxlen: usize) -> u64 {
    (0..=maxlen).map(|l| (EXH_OPS as u64).pow(l as u32)).sum()
}

fn exh_history(mut idx: u64, maxlen: usize) -> Vec<Step> {
    let mut len = 0;
    loop {
        let n = (EXH_OPS as u64).pow(len as u32);
        if idx < n || len == maxlen {
            break;
        }
        idx -= n;
        len += 1;
    }
    let mut cur = 0usize;
    let mut out = Vec::new();
    for _ in 0..len {
        let d = (idx % EXH_OPS as u64) as usize;
        idx /= EXH_OPS as u64;
        match d {
            0 => out.push(Step { piece: cur, op: Op::Next }),
            1 => out.push(Step { piece: cur, op: Op::NextBack }),
            2 => out.push(Step { piece: cur, op: Op::Nth(1) }),
            3 => out.push(Step { piece: cur, op: Op::SplitMid }), // continue on the left half
            _ => {
                out.push(Step { piece: cur, op: Op::SplitMid }); // continue on the right half
                cur += 1;
            }
        }
    }
    out
}

fn kinds_for(l: &LayoutM, broadcast: bool) -> Vec<(Kind, bool)> {
    let n = l.ndim();
    let mut ks: Vec<(Kind, bool)> = vec![(Kind::Iter, false)];
    let nd_ok = (1..=4).contains(&n);
    if nd_ok {
        ks.push((Kind::Iter, true));
    }
    if !broadcast {
        ks.push((Kind::IterMut, false));
        if nd_ok {
            ks.push((Kind::IterMut, true));
        }
    }
    for dim in 0..n {
        ks.push((Kind::Lanes { dim }, false));
        ks.push((Kind::AxisIter { dim }, false));
        if n >= 2 && n <= 4 {
            ks.push((Kind::AxisIter { dim }, true));
        }
        ks.push((Kind::AxisChunks { dim, chunk: 1 }, false));
        ks.push((Kind::AxisChunks { dim, chunk: 2 }, nd_ok));
        if !broadcast {
            ks.push((Kind::LanesMut { dim }, false));
            ks.push((Kind::AxisIterMut { dim }, nd_ok && n >= 2));
            ks.push((Kind::AxisChunksMut { dim, chunk: 2 }, false));
        }
    }
    for inner in 0..=n.min(3) {
        ks.push((Kind::Inner { n: inner }, false));
        if (1..=3).contains(&inner) {
            ks.push((Kind::InnerNd { n: inner }, nd_ok));
        }
        if !broadcast && inner >= 1 {
            ks.push((Kind::InnerMut { n: inner }, false));
            ks.push((Kind::InnerMutNd { n: inner }, false));
        }
    }
    ks
}

impl Engine for IterEngine {
    type Case = IterCase;

    fn name() -> &'static str {
        "sim_iter"
    }
    fn engine_id() -> u64 {
        7
    }
    fn properties() -> Vec<&'static str> {
        vec!["C07"]
    }

    fn new(_property: &str, tier: Tier, _seed: u64) -> Self {
        let exh_layouts = model::exhaustive_layouts();
        let mut exh_combos = Vec::new();
        for (i, l) in exh_layouts.iter().enumerate() {
            for (k, nd) in kinds_for(l, l.is_broadcast()) {
                exh_combos.push((i, k, nd));
            }
        }
        // chunk iterators over plain ranges
        let maxlen = match tier {
            Tier::Quick => 4,
            Tier::Thorough => 5,
        };
        IterEngine {
            exh_layouts,
            exh_combos,
            exh_hist: exh_history_count(maxlen),
            exh_maxlen: maxlen,
            seeded: match tier {
                Tier::Quick => 1_500_000,
                Tier::Thorough => 150_000_000,
            },
        }
    }

    fn info(&self) -> EngineInfo {
        EngineInfo {
            level: "exploration",
            rule: format!(
                "Exhaustive sub-space first: every history of length <= {} over {{next, next_back, nth(1), split_at(len/2) then continue left, ... then continue right}} (the rest of every live piece is then drained by fold / rev) for every iterator kind x every layout of a finite family (rank <= 3, <= 12 elements: contiguous, all permutations, step-2 and offset slices, stride-0 broadcast, size-0/size-1 dims) = {} (layout, iterator) combinations x {} histories; then seeded cases: random layout (rank 0-4, sizes 0-5, up to 3 of permute/step-slice/index/insert-axis/broadcast/reverse), random iterator kind and a history of up to 12 operations over a pool of pieces (next, next_back, nth(k), nth_back(k), split_at(any index 0..=len) through rayon's Producer interface, fold, rev, step_by) — the simulator plays rayon's bridge and decides every split point, consumer and direction. Non-trivial = at least one split, or back-after-front consumption, or nth; distinct = hash of the explicit case.",
                self.exh_maxlen,
                self.exh_combos.len(),
                self.exh_hist
            ),
            real_components: vec![
                "rten_tensor::iterators (Iter, IterMut, Lanes, Lane, LanesMut, LaneMut, InnerIter, InnerIterMut, AxisIter, AxisIterMut, AxisChunks, AxisChunksMut) and their SplitIterator impls".into(),
                "rten_base::iter::{range_chunks, range_chunks_exact}".into(),
                "rten_parallel::par_iter::ParIter as rayon::iter::plumbing::Producer".into(),
            ],
            stub_components: vec!["rayon's bridge / work-stealing scheduler -> the simulator's seeded split-and-consume scheduler (a real-rayon collect cross-check is reported as a probe only)".into()],
            assumptions: vec![
                "views are built with from_slice_with_strides / from_data_with_strides from the reference model's (shape, strides, offset); layout transformations themselves (C09) are not under test".into(),
                "chunk iterators (AxisChunks*, RangeChunks) are judged on elements: every item is the maximal chunk (min(chunk_size, remaining) rows) at the front or back cursor, as the repository's own tests define rev() on them".into(),
            ],
            technique: "deterministic simulation: seeded + exhaustive consumption histories and simulated parallel split/consume schedules against a reference index->offset model".into(),
            hang_secs: 30,
            expected_probes: vec![
                "probe:split".into(), "probe:split_partially_consumed".into(), "probe:back_after_front".into(), "probe:offsets_range_path".into(), "probe:offsets_indexing_path".into(),
                "probe:broadcast_layout".into(), "probe:empty_layout".into(), "probe:mutable_kind".into(), "probe:nd_layout".into(),
            ],
        }
    }

    fn num_cases(&self) -> u64 {
        self.exh_combos.len() as u64 * self.exh_hist + self.seeded
    }

    fn exhaustive(&self) -> bool {
        false
    }

    fn make_case(&self, index: u64, seed: u64) -> IterCase {
        let exh_total = self.exh_combos.len() as u64 * self.exh_hist;
        if index < exh_total {
            let (li, kind, nd) = &self.exh_combos[(index / self.exh_hist) as usize];
            return IterCase { layout: self.exh_layouts[*li].clone(), kind: kind.clone(), nd: *nd, history: exh_history(index % self.exh_hist, self.exh_maxlen), note: "exhaustive".into() };
        }
        let mut r = Rng::new(seed);
        let want_mut = r.chance(2, 5);
        let layout = model::gen_layout(&mut r, !want_mut);
        let n = layout.ndim();
        let dim = if n > 0 { r.usize_below(n) } else { 0 };
        let kind = if r.chance(1, 12) {
            let start = r.urange(0, 5);
            let end = start + r.urange(0, 14);
            let chunk = r.urange(1, 5);
            if r.chance(1, 4) { Kind::RangeChunksExact { start, end, chunk } } else { Kind::RangeChunks { start, end, chunk } }
        } else if want_mut {
            match r.below(7) {
                0 => Kind::IterMut,
                1 if n > 0 => Kind::LanesMut { dim },
                2 => Kind::InnerMut { n: r.urange(0, n.min(3)) },
                3 if n > 0 => Kind::InnerMutNd { n: r.urange(1, n.min(3)) },
                4 if n > 0 => Kind::AxisIterMut { dim },
                5 if n > 0 => Kind::AxisChunksMut { dim, chunk: r.urange(1, 3) },
                6 if n > 0 => Kind::LaneMut { dim, j: r.usize_below(4) },
                _ => Kind::IterMut,
            }
        } else {
            match r.below(8) {
                0 => Kind::Iter,
                1 if n > 0 => Kind::Lanes { dim },
                2 => Kind::Inner { n: r.urange(0, n.min(3)) },
                3 if n > 0 => Kind::InnerNd { n: r.urange(1, n.min(3)) },
                4 if n > 0 => Kind::AxisIter { dim },
                5 if n > 0 => Kind::AxisChunks { dim, chunk: r.urange(1, 3) },
                6 if n > 0 => Kind::Lane { dim, j: r.usize_below(4) },
                _ => Kind::Iter,
            }
        };
        let nd = r.chance(1, 3);
        let hl = r.urange(0, 12);
        let mut history = Vec::new();
        for _ in 0..hl {
            let op = match r.below(16) {
                0..=3 => Op::Next,
                4..=6 => Op::NextBack,
                7 => Op::Nth(r.urange(0, 4)),
                8 => Op::NthBack(r.urange(0, 3)),
                9 | 10 => Op::SplitMid,
                11 | 12 => Op::Split(r.urange(0, 9)),
                13 => Op::FoldRest,
                14 => Op::RevRest,
                _ => Op::StepByRest(r.urange(1, 3)),
            };
            history.push(Step { piece: r.usize_below(6), op });
        }
        IterCase { layout, kind, nd, history, note: "seeded".into() }
    }

    fn run_case(&self, case: &IterCase, ctx: &mut Ctx) -> Outcome {
        let l = &case.layout;
        if l.shape.len() != l.strides.len() || l.offset > l.base_len || l.offset + l.min_data_len() > l.base_len.max(l.offset + l.min_data_len()) {
            return Outcome { executions: 1, ..Default::default() };
        }
        let need = l.offset + l.min_data_len();
        let mut data: Vec<i32> = (0..need.max(l.base_len) as i32).collect();
        let Some(model) = expected(&case.kind, l) else {
            ctx.count("probe:kind_not_applicable_to_layout");
            return Outcome { executions: 1, ..Default::default() };
        };
        let is_mut = case.kind.is_mut();
        // rten refuses mutable iteration over any layout with a zero stride (documented panic)
        if is_mut && (l.is_broadcast() || l.strides.contains(&0)) {
            ctx.count("probe:kind_not_applicable_to_layout");
            return Outcome { executions: 1, ..Default::default() };
        }
        let contiguous = {
            let c = LayoutM::contiguous(&l.shape);
            c.strides == l.strides || l.is_empty()
        };
        let label = case.kind.name().to_string();
        let layout_note = format!("shape {:?} strides {:?} offset {}{}", l.shape, l.strides, l.offset, if contiguous { " (contiguous)" } else { "" });
        let nd = case.nd && (1..=4).contains(&l.ndim());
        let inner_ok = match &case.kind {
            Kind::InnerNd { n } | Kind::InnerMutNd { n } => (1..=3).contains(n),
            _ => true,
        };
        if !inner_ok {
            return Outcome { executions: 1, ..Default::default() };
        }

        let (violation, steps, trace, splits);
        let mut nontrivial = case.history.iter().any(|s| !matches!(s.op, Op::Next | Op::FoldRest));
        if is_mut {
            let mut views = build_views_mut(l, nd, &mut data);
            let vr = &mut views;
            let kind = &case.kind;
            let piece = match catch(move || make_piece_mut(kind, vr)) {
                Ok(Some(p)) => p,
                Ok(None) => {
                    ctx.count("probe:view_not_constructible");
                    return Outcome { executions: 1, ..Default::default() };
                }
                Err(pi) => {
                    return Outcome {
                        violation: Some(Violation::new(format!("C07/panic/{label}/create"), format!("[{layout_note}] creating the iterator panicked: {} at {}", pi.message, pi.location))),
                        nontrivial: true,
                        executions: 1,
                        ..Default::default()
                    }
                }
            };
            let (v, sim) = run_history(piece, model, label, layout_note, true, &case.history);
            violation = v;
            steps = sim.steps;
            splits = sim.splits;
            trace = sim.trace.clone();
            drop(sim);
        } else {
            let views = build_views(l, nd, &data);
            let piece = match catch(|| make_piece(&case.kind, &views)) {
                Ok(Some(p)) => p,
                Ok(_) => {
                    ctx.count("probe:view_not_constructible");
                    return Outcome { executions: 1, ..Default::default() };
                }
                Err(pi) => {
                    return Outcome {
                        violation: Some(Violation::new(format!("C07/panic/{label}/create"), format!("creating the iterator panicked: {} at {}", pi.message, pi.location))),
                        nontrivial: true,
                        executions: 1,
                        ..Default::default()
                    }
                }
            };
            let (v, sim) = run_history(piece, model, label.clone(), layout_note, false, &case.history);
            violation = v;
            steps = sim.steps;
            splits = sim.splits;
            trace = sim.trace.clone();
            drop(sim);
            // Uncontrolled cross-check with real rayon (probe only, never a verdict).
            if violation.is_none() && case.note == "seeded" && case.history.len() % 7 == 3 && matches!(case.kind, Kind::Iter) {
                if let Some(Some(want)) = expected(&case.kind, l).map(|m| if let Model::Seq(q) = m { Some(q) } else { None }) {
                    if let Some(x) = &views.d {
                        // a private 3-thread pool: rayon's global pool would start one
                        // spinning thread per core in each of the 16 worker processes
                        static POOL: std::sync::OnceLock<rayon::ThreadPool> = std::sync::OnceLock::new();
                        let pool = POOL.get_or_init(|| rayon::ThreadPoolBuilder::new().num_threads(3).build().expect("rayon pool"));
                        let got: Vec<i64> = pool.install(|| x.iter().into_par_iter().map(|v| *v as i64).collect());
                        ctx.count("probe:real_rayon_crosscheck");
                        if got.len() != want.len() || got.iter().zip(want.iter()).any(|(a, b)| *a != b[0]) {
                            ctx.count("probe:real_rayon_crosscheck_MISMATCH");
                        }
                    }
                }
            }
        }
        ctx.add("probe:split", splits);
        if splits > 0 && case.history.iter().take_while(|s| !matches!(s.op, Op::Split(_) | Op::SplitMid)).any(|s| matches!(s.op, Op::Next | Op::NextBack | Op::Nth(_) | Op::NthBack(_))) {
            ctx.count("probe:split_partially_consumed");
        }
        let mut seen_front = false;
        for s in &case.history {
            match s.op {
                Op::Next | Op::Nth(_) => seen_front = true,
                Op::NextBack | Op::NthBack(_) | Op::RevRest if seen_front => {
                    ctx.count("probe:back_after_front");
                    break;
                }
                _ => {}
            }
        }
        if contiguous {
            ctx.count("probe:offsets_range_path");
        } else {
            ctx.count("probe:offsets_indexing_path");
        }
        if l.is_broadcast() {
            ctx.count("probe:broadcast_layout");
        }
        if l.is_empty() {
            ctx.count("probe:empty_layout");
        }
        if is_mut {
            ctx.count("probe:mutable_kind");
        }
        if nd {
            ctx.count("probe:nd_layout");
        }
        if splits > 0 {
            nontrivial = true;
        }
        Outcome { violation, nontrivial, steps: steps.max(1), trace_hash: mix(&trace), executions: 1, ..Default::default() }
    }

    fn shrink(&self, case: &IterCase) -> Vec<IterCase> {
        let mut out = Vec::new();
        // shorter histories
        for i in (0..case.history.len()).rev() {
            let mut c = case.clone();
            c.history.remove(i);
            out.push(c);
        }
        // simpler operations
        for (i, s) in case.history.iter().enumerate() {
            let simpler: Vec<Op> = match &s.op {
                Op::Nth(k) if *k > 0 => vec![Op::Nth(k - 1), Op::Next],
                Op::Nth(_) => vec![Op::Next],
                Op::NthBack(k) if *k > 0 => vec![Op::NthBack(k - 1), Op::NextBack],
                Op::NthBack(_) => vec![Op::NextBack],
                Op::Split(k) if *k > 0 => vec![Op::Split(k - 1), Op::SplitMid],
                Op::StepByRest(k) if *k > 1 => vec![Op::StepByRest(k - 1), Op::FoldRest],
                Op::RevRest => vec![Op::FoldRest],
                _ => vec![],
            };
            for op in simpler {
                let mut c = case.clone();
                c.history[i].op = op;
                out.push(c);
            }
            if s.piece > 0 {
                let mut c = case.clone();
                c.history[i].piece = 0;
                out.push(c);
            }
        }
        if case.nd {
            out.push(IterCase { nd: false, ..case.clone() });
        }
        // smaller layouts: shrink a dimension, drop the offset, make contiguous
        let l = &case.layout;
        for d in 0..l.ndim() {
            if l.shape[d] > 1 {
                let mut c = case.clone();
                c.layout.shape[d] -= 1;
                out.push(c);
            }
        }
        if l.offset > 0 {
            let mut c = case.clone();
            c.layout.offset = 0;
            out.push(c);
        }
        let cont = LayoutM::contiguous(&l.shape);
        if cont.strides != l.strides {
            let mut c = case.clone();
            c.layout.strides = cont.strides.clone();
            c.layout.base_len = c.layout.base_len.max(cont.base_len + c.layout.offset);
            out.push(c);
        }
        out
    }
}

fn main() {
    driver::main::<IterEngine>();
}
