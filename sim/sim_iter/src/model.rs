//! Reference model of a strided layout: an index -> offset map kept as plain
//! (size, stride) pairs plus a start offset. Everything the oracle expects is
//! computed from this model with nested loops; nothing here calls rten.

use serde::{Deserialize, Serialize};
use simcore::rng::Rng;

#[derive(Clone, Debug, Serialize, Deserialize, PartialEq)]
pub struct LayoutM {
    pub shape: Vec<usize>,
    pub strides: Vec<usize>,
    pub offset: usize,
    /// Length of the backing buffer (`data[i] = i`).
    pub base_len: usize,
}

/// A yielded item in canonical form. Elements: `[value]`. Lanes: `[len, values..]`.
/// Views: `[ndim, shape.., values..]` in row-major order.
pub type Canon = Vec<i64>;

impl LayoutM {
    pub fn contiguous(shape: &[usize]) -> LayoutM {
        let mut strides = vec![0; shape.len()];
        let mut s = 1;
        for d in (0..shape.len()).rev() {
            strides[d] = s;
            s *= shape[d];
        }
        LayoutM { shape: shape.to_vec(), strides, offset: 0, base_len: shape.iter().product() }
    }
    pub fn ndim(&self) -> usize {
        self.shape.len()
    }
    pub fn len(&self) -> usize {
        self.shape.iter().product()
    }
    pub fn is_empty(&self) -> bool {
        self.shape.iter().any(|s| *s == 0)
    }
    pub fn is_broadcast(&self) -> bool {
        // internal overlap: some dim with size > 1 and stride 0, or any two
        // indices mapping to one offset (checked exactly, layouts are tiny)
        let offs = self.offsets();
        let mut sorted = offs.clone();
        sorted.sort();
        sorted.dedup();
        sorted.len() != offs.len()
    }
    /// Minimum number of elements the storage slice (starting at `offset`) needs.
    pub fn min_data_len(&self) -> usize {
        if self.is_empty() {
            0
        } else {
            self.shape.iter().zip(&self.strides).map(|(s, st)| (s - 1) * st).sum::<usize>() + 1
        }
    }
    /// Global element values in row-major order.
    pub fn offsets(&self) -> Vec<usize> {
        let mut out = Vec::with_capacity(self.len());
        if self.is_empty() {
            return out;
        }
        let n = self.ndim();
        let mut idx = vec![0usize; n];
        loop {
            out.push(self.offset + idx.iter().zip(&self.strides).map(|(i, s)| i * s).sum::<usize>());
            let mut d = n;
            loop {
                if d == 0 {
                    return out;
                }
                d -= 1;
                idx[d] += 1;
                if idx[d] < self.shape[d] {
                    break;
                }
                idx[d] = 0;
            }
        }
    }
    pub fn permute(&self, perm: &[usize]) -> LayoutM {
        LayoutM {
            shape: perm.iter().map(|p| self.shape[*p]).collect(),
            strides: perm.iter().map(|p| self.strides[*p]).collect(),
            ..self.clone()
        }
    }
    pub fn step_slice(&self, axis: usize, start: usize, end: usize, step: usize) -> LayoutM {
        let mut l = self.clone();
        let size = if end > start { (end - start).div_ceil(step) } else { 0 };
        if size > 0 {
            l.offset += start * l.strides[axis];
        }
        l.shape[axis] = size;
        l.strides[axis] *= step;
        l
    }
    pub fn index_axis(&self, axis: usize, i: usize) -> LayoutM {
        let mut l = self.clone();
        l.offset += i * l.strides[axis];
        l.shape.remove(axis);
        l.strides.remove(axis);
        l
    }
    pub fn insert_axis(&self, pos: usize, stride: usize) -> LayoutM {
        let mut l = self.clone();
        l.shape.insert(pos, 1);
        l.strides.insert(pos, stride);
        l
    }
    pub fn broadcast_axis(&self, axis: usize, size: usize) -> LayoutM {
        let mut l = self.clone();
        l.shape[axis] = size;
        l.strides[axis] = 0;
        l
    }
    /// Sub-layout of rows `a..b` along `axis`.
    pub fn rows(&self, axis: usize, a: usize, b: usize) -> LayoutM {
        let mut l = self.clone();
        if b > a {
            l.offset += a * l.strides[axis];
        }
        l.shape[axis] = b.saturating_sub(a);
        l
    }

    // ---- expected item sequences -------------------------------------------------

    pub fn canon_view(&self) -> Canon {
        let mut c: Canon = vec![self.ndim() as i64];
        c.extend(self.shape.iter().map(|s| *s as i64));
        c.extend(self.offsets().iter().map(|o| *o as i64));
        c
    }
    pub fn expect_elements(&self) -> Vec<Canon> {
        self.offsets().iter().map(|o| vec![*o as i64]).collect()
    }
    pub fn expect_lanes(&self, dim: usize) -> Vec<Canon> {
        if self.is_empty() {
            return vec![];
        }
        let mut others = self.clone();
        others.shape.remove(dim);
        others.strides.remove(dim);
        others
            .offsets()
            .iter()
            .map(|start| {
                let mut c: Canon = vec![self.shape[dim] as i64];
                c.extend((0..self.shape[dim]).map(|i| (start + i * self.strides[dim]) as i64));
                c
            })
            .collect()
    }
    pub fn expect_inner(&self, inner: usize) -> Vec<Canon> {
        let outer_n = self.ndim() - inner;
        let outer = LayoutM { shape: self.shape[..outer_n].to_vec(), strides: self.strides[..outer_n].to_vec(), ..self.clone() };
        let inner_l = |start: usize| LayoutM { shape: self.shape[outer_n..].to_vec(), strides: self.strides[outer_n..].to_vec(), offset: start, base_len: self.base_len };
        if inner_l(0).is_empty() {
            // empty inner views: one (empty) view per outer index
            return (0..outer.len()).map(|_| inner_l(0).canon_view()).collect();
        }
        outer.offsets().iter().map(|start| inner_l(*start).canon_view()).collect()
    }
    pub fn expect_axis(&self, dim: usize) -> Vec<Canon> {
        (0..self.shape[dim]).map(|i| self.index_axis(dim, i).canon_view()).collect()
    }
}

/// Seeded layout: contiguous base of rank 0..=4, sizes 0..=4, then up to three
/// view operations.
pub fn gen_layout(r: &mut Rng, allow_broadcast: bool) -> LayoutM {
    let rank = *r.pick(&[0usize, 1, 1, 2, 2, 2, 3, 3, 3, 4]);
    let shape: Vec<usize> = (0..rank).map(|_| *r.pick(&[0usize, 1, 1, 2, 2, 3, 3, 4, 5])).collect();
    let mut l = LayoutM::contiguous(&shape);
    let nops = r.urange(0, 3);
    for _ in 0..nops {
        let n = l.ndim();
        match r.below(6) {
            0 if n >= 2 => {
                let mut perm: Vec<usize> = (0..n).collect();
                r.shuffle(&mut perm);
                l = l.permute(&perm);
            }
            1 if n >= 1 => {
                let axis = r.usize_below(n);
                let size = l.shape[axis];
                let start = r.urange(0, size);
                let end = r.urange(start, size);
                let step = r.urange(1, 3);
                l = l.step_slice(axis, start, end, step);
            }
            2 if n >= 1 && !l.is_empty() => {
                let axis = r.usize_below(n);
                let i = r.usize_below(l.shape[axis]);
                l = l.index_axis(axis, i);
            }
            3 if n <= 3 => {
                let pos = r.urange(0, n);
                let natural: usize = l.shape[pos..].iter().product();
                let stride = *r.pick(&[0usize, 1, natural.max(1), 7]);
                l = l.insert_axis(pos, stride);
            }
            4 if allow_broadcast && n >= 1 => {
                let axis = r.usize_below(n);
                if l.shape[axis] == 1 {
                    l = l.broadcast_axis(axis, r.urange(2, 3));
                } else if n <= 3 {
                    l = l.insert_axis(0, 0).broadcast_axis(0, r.urange(2, 3));
                }
            }
            5 if n >= 2 => {
                let perm: Vec<usize> = (0..n).rev().collect();
                l = l.permute(&perm);
            }
            _ => {}
        }
    }
    l
}

/// The finite layout family of the exhaustive sub-space: rank <= 3, <= 12
/// elements; contiguous, every permutation, step-2 slices, offset slices,
/// stride-0 broadcast, size-1 and size-0 dims.
pub fn exhaustive_layouts() -> Vec<LayoutM> {
    let mut out: Vec<LayoutM> = Vec::new();
    let mut shapes: Vec<Vec<usize>> = vec![vec![]];
    for a in 0..=4usize {
        shapes.push(vec![a]);
        for b in 0..=4usize {
            if a * b <= 12 && (a == 0 || b == 0 || a.max(b) <= 4) {
                shapes.push(vec![a, b]);
            }
            for c in 1..=3usize {
                if a >= 1 && b >= 1 && a <= 3 && b <= 3 && a * b * c <= 12 {
                    shapes.push(vec![a, b, c]);
                }
            }
        }
    }
    let perms = |n: usize| -> Vec<Vec<usize>> {
        match n {
            2 => vec![vec![1, 0]],
            3 => vec![vec![0, 2, 1], vec![1, 0, 2], vec![1, 2, 0], vec![2, 0, 1], vec![2, 1, 0]],
            _ => vec![],
        }
    };
    for s in &shapes {
        let base = LayoutM::contiguous(s);
        out.push(base.clone());
        for p in perms(s.len()) {
            out.push(base.permute(&p));
        }
        for axis in 0..s.len() {
            if s[axis] >= 1 {
                // step-2 view of a base that is twice as long on `axis`
                let mut big = s.clone();
                big[axis] = s[axis] * 2;
                let b = LayoutM::contiguous(&big);
                out.push(b.step_slice(axis, 0, big[axis], 2));
                out.push(b.step_slice(axis, 1, big[axis], 2));
                // offset slice
                out.push(b.step_slice(axis, s[axis], big[axis], 1));
                let sliced = b.step_slice(axis, 1, big[axis], 2);
                for p in perms(s.len()) {
                    out.push(sliced.permute(&p));
                }
            }
            if s[axis] == 1 && s.iter().product::<usize>() <= 6 {
                out.push(base.broadcast_axis(axis, 2));
            }
        }
    }
    out.retain(|l| l.len() <= 12);
    out
}
