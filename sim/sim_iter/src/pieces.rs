//! Live iterator pieces behind one object-safe interface, so that the history
//! engine / simulated parallel scheduler can treat every rten iterator type
//! uniformly. Splits go through rayon's public `Producer` interface on
//! `ParIter<I>` — the simulator plays the role of rayon's `bridge`.

use crate::model::Canon;
use rayon::iter::plumbing::Producer;
use rten_base::iter::SplitIterator;
use rten_parallel::par_iter::ParIter;

#[derive(Clone, Debug)]
pub struct It {
    pub c: Canon,
    /// Addresses of the elements handed out mutably by this item.
    pub addrs: Vec<usize>,
}

pub trait Piece<'a> {
    fn len(&self) -> usize;
    fn hint(&self) -> (usize, Option<usize>);
    fn next(&mut self) -> Option<It>;
    fn next_back(&mut self) -> Option<It>;
    fn nth(&mut self, n: usize) -> Option<It>;
    fn nth_back(&mut self, n: usize) -> Option<It>;
    fn fold_rest(self: Box<Self>) -> Vec<It>;
    fn rev_rest(self: Box<Self>) -> Vec<It>;
    fn step_by_rest(self: Box<Self>, k: usize) -> Vec<It>;
    fn can_split(&self) -> bool;
    fn can_back(&self) -> bool;
    fn split(self: Box<Self>, i: usize) -> (Box<dyn Piece<'a> + 'a>, Box<dyn Piece<'a> + 'a>);
}

/// Splittable, double-ended (everything rayon can drive).
pub struct Sp<I, F> {
    pub it: I,
    pub f: F,
}

impl<'a, I, F> Piece<'a> for Sp<I, F>
where
    I: SplitIterator + DoubleEndedIterator + Send + 'a,
    F: Fn(I::Item) -> It + Copy + 'a,
{
    fn len(&self) -> usize {
        ExactSizeIterator::len(&self.it)
    }
    fn hint(&self) -> (usize, Option<usize>) {
        self.it.size_hint()
    }
    fn next(&mut self) -> Option<It> {
        self.it.next().map(self.f)
    }
    fn next_back(&mut self) -> Option<It> {
        self.it.next_back().map(self.f)
    }
    fn nth(&mut self, n: usize) -> Option<It> {
        self.it.nth(n).map(self.f)
    }
    fn nth_back(&mut self, n: usize) -> Option<It> {
        self.it.nth_back(n).map(self.f)
    }
    fn fold_rest(self: Box<Self>) -> Vec<It> {
        let f = self.f;
        self.it.fold(Vec::new(), |mut v, x| {
            v.push(f(x));
            v
        })
    }
    fn rev_rest(self: Box<Self>) -> Vec<It> {
        let f = self.f;
        self.it.rev().map(f).collect()
    }
    fn step_by_rest(self: Box<Self>, k: usize) -> Vec<It> {
        let f = self.f;
        self.it.step_by(k.max(1)).map(f).collect()
    }
    fn can_split(&self) -> bool {
        true
    }
    fn can_back(&self) -> bool {
        true
    }
    fn split(self: Box<Self>, i: usize) -> (Box<dyn Piece<'a> + 'a>, Box<dyn Piece<'a> + 'a>) {
        let f = self.f;
        let (l, r) = Producer::split_at(ParIter::from(self.it), i);
        (Box::new(Sp { it: Producer::into_iter(l), f }), Box::new(Sp { it: Producer::into_iter(r), f }))
    }
}

/// Double-ended but not splittable (a single `Lane` / `LaneMut`).
pub struct De<I, F> {
    pub it: I,
    pub f: F,
}

impl<'a, I, F> Piece<'a> for De<I, F>
where
    I: DoubleEndedIterator + ExactSizeIterator + 'a,
    F: Fn(I::Item) -> It + Copy + 'a,
{
    fn len(&self) -> usize {
        ExactSizeIterator::len(&self.it)
    }
    fn hint(&self) -> (usize, Option<usize>) {
        self.it.size_hint()
    }
    fn next(&mut self) -> Option<It> {
        self.it.next().map(self.f)
    }
    fn next_back(&mut self) -> Option<It> {
        self.it.next_back().map(self.f)
    }
    fn nth(&mut self, n: usize) -> Option<It> {
        self.it.nth(n).map(self.f)
    }
    fn nth_back(&mut self, n: usize) -> Option<It> {
        self.it.nth_back(n).map(self.f)
    }
    fn fold_rest(self: Box<Self>) -> Vec<It> {
        let f = self.f;
        self.it.fold(Vec::new(), |mut v, x| {
            v.push(f(x));
            v
        })
    }
    fn rev_rest(self: Box<Self>) -> Vec<It> {
        let f = self.f;
        self.it.rev().map(f).collect()
    }
    fn step_by_rest(self: Box<Self>, k: usize) -> Vec<It> {
        let f = self.f;
        self.it.step_by(k.max(1)).map(f).collect()
    }
    fn can_split(&self) -> bool {
        false
    }
    fn can_back(&self) -> bool {
        true
    }
    fn split(self: Box<Self>, _i: usize) -> (Box<dyn Piece<'a> + 'a>, Box<dyn Piece<'a> + 'a>) {
        unreachable!("not splittable")
    }
}

/// Forward only (`RangeChunksExact`).
pub struct Fw<I, F> {
    pub it: I,
    pub f: F,
}

impl<'a, I, F> Piece<'a> for Fw<I, F>
where
    I: ExactSizeIterator + 'a,
    F: Fn(I::Item) -> It + Copy + 'a,
{
    fn len(&self) -> usize {
        ExactSizeIterator::len(&self.it)
    }
    fn hint(&self) -> (usize, Option<usize>) {
        self.it.size_hint()
    }
    fn next(&mut self) -> Option<It> {
        self.it.next().map(self.f)
    }
    fn next_back(&mut self) -> Option<It> {
        unreachable!()
    }
    fn nth(&mut self, n: usize) -> Option<It> {
        self.it.nth(n).map(self.f)
    }
    fn nth_back(&mut self, _n: usize) -> Option<It> {
        unreachable!()
    }
    fn fold_rest(self: Box<Self>) -> Vec<It> {
        let f = self.f;
        self.it.fold(Vec::new(), |mut v, x| {
            v.push(f(x));
            v
        })
    }
    fn rev_rest(self: Box<Self>) -> Vec<It> {
        unreachable!()
    }
    fn step_by_rest(self: Box<Self>, k: usize) -> Vec<It> {
        let f = self.f;
        self.it.step_by(k.max(1)).map(f).collect()
    }
    fn can_split(&self) -> bool {
        false
    }
    fn can_back(&self) -> bool {
        false
    }
    fn split(self: Box<Self>, _i: usize) -> (Box<dyn Piece<'a> + 'a>, Box<dyn Piece<'a> + 'a>) {
        unreachable!("not splittable")
    }
}
