//! sim_exec — executor-strategy simulation.
//!
//! * C02: results are independent of execution strategy (in place or not, which
//!   commutative operand, recycling, operator order, worker threads, prepacking,
//!   owned vs borrowed inputs) and equal a naive evaluation.
//! * C24: control-flow subgraphs behave like the equivalent inlined graph.
//! * C25: runs are deterministic and leave model and inputs unchanged.
//!
//! The "schedule" here is the executor's own freedom: every choice the
//! executor may legally make differently is drawn from the case seed through
//! hooks (`--cfg rten_verif`), and the oracle is the same model run under the
//! reference strategy (nothing in place, nothing recycled, no by-value capture,
//! planner order, one worker, borrowed inputs, no prepacking).

mod gen;
mod twin;

use gen::{InputSpec, Program, Ty, Val};
#[allow(unused_imports)]
use gen::generate_with;
use rten::{Model, ModelOptions, NodeId, RunErrorKind, RunOptions, ThreadPool, Value, ValueOrView};
use rten_tensor::prelude::*;
use rten_tensor::Tensor;
use serde::{Deserialize, Serialize};
use simcore::catch::{catch, panic_site};
use simcore::driver::{self, Ctx, Engine, EngineInfo, Outcome, Tier, Violation};
use simcore::rng::{fnv64, mix, Rng};
use std::sync::Arc;

#[derive(Clone, Debug, Serialize, Deserialize, PartialEq)]
pub struct StrategySpec {
    pub seed: u64,
    pub refuse_in_place: u16,
    pub any_commutative_operand: bool,
    pub keep_out_of_pool: u16,
    pub refuse_by_value_capture: u16,
    pub shuffle_plan: bool,
    pub pool_min_size: Option<usize>,
    pub pool_random_fit: bool,
    pub pool_miss: u16,
    pub poison: Option<u8>,
}

#[derive(Clone, Debug, Serialize, Deserialize, PartialEq)]
pub struct RunCfg {
    /// `None` = the shipped executor behaviour (no strategy object at all).
    pub strategy: Option<StrategySpec>,
    pub threads: usize,
    /// Bit i set = input i is passed as an owned value.
    pub owned_mask: u32,
    pub prepack: bool,
}

#[derive(Clone, Debug, Serialize, Deserialize, PartialEq)]
pub enum HistStep {
    /// Run with `cfg`, requesting the outputs at these indices of `outputs`,
    /// with input data variant `variant`.
    Run {
        cfg: RunCfg,
        outputs: Vec<usize>,
        variant: u64,
        /// Also supply this requested-output value as an input (a different input set, hence a different plan key).
        #[serde(default)]
        feed: Option<usize>,
    },
    /// A run that must fail: input 0 gets an extra dimension.
    BadInput { cfg: RunCfg },
}

#[derive(Clone, Debug, Serialize, Deserialize)]
pub struct ExecCase {
    pub model: onnxenc::Model,
    pub inputs: Vec<InputSpec>,
    pub outputs: Vec<Val>,
    pub optimize: bool,
    pub runs: Vec<RunCfg>,
    /// C25 only.
    pub history: Vec<HistStep>,
    pub note: String,
}

/// (dtype tag, shape, element bits)
type Canon = (u8, Vec<usize>, Vec<u32>);

fn canon(v: &Value) -> Canon {
    match v {
        Value::FloatTensor(t) => (0, t.shape().to_vec(), t.iter().map(|x| x.to_bits()).collect()),
        Value::Int32Tensor(t) => (1, t.shape().to_vec(), t.iter().map(|x| *x as u32).collect()),
        Value::Int8Tensor(t) => (2, t.shape().to_vec(), t.iter().map(|x| *x as u8 as u32).collect()),
        Value::UInt8Tensor(t) => (3, t.shape().to_vec(), t.iter().map(|x| *x as u32).collect()),
        _ => (9, vec![], vec![]),
    }
}

/// Exact comparison, except that any NaN equals any NaN.
fn same_exact(a: &Canon, b: &Canon) -> bool {
    if a.0 != b.0 || a.1 != b.1 || a.2.len() != b.2.len() {
        return false;
    }
    if a.0 != 0 {
        return a.2 == b.2;
    }
    a.2.iter().zip(&b.2).all(|(x, y)| x == y || (f32::from_bits(*x).is_nan() && f32::from_bits(*y).is_nan()))
}

/// Comparison for runs whose accumulation order may legitimately differ
/// (several worker threads, prepacked weights).
fn same_tolerant(a: &Canon, b: &Canon) -> bool {
    if a.0 != b.0 || a.1 != b.1 || a.2.len() != b.2.len() {
        return false;
    }
    if a.0 != 0 {
        return a.2 == b.2;
    }
    // Accumulation order differs with the number of worker threads and with prepacked weights; after
    // cancellation the error of a long dot product is small relative to the *tensor*, not to the element.
    let scale = a.2.iter().chain(&b.2).map(|x| f32::from_bits(*x)).filter(|x| x.is_finite()).fold(0f32, |m, x| m.max(x.abs()));
    a.2.iter().zip(&b.2).all(|(x, y)| {
        let (x, y) = (f32::from_bits(*x), f32::from_bits(*y));
        if x.is_nan() || y.is_nan() {
            return x.is_nan() && y.is_nan();
        }
        if x.is_infinite() || y.is_infinite() {
            return x == y;
        }
        (x - y).abs() <= 1e-5 * x.abs().max(y.abs()) + 1e-3 * scale + 1e-6
    })
}

fn input_value(spec: &InputSpec, variant: u64) -> Value {
    let n: usize = spec.val.shape.iter().product();
    let mut r = Rng::new(mix(&[spec.seed, variant]));
    match spec.val.ty {
        Ty::F => {
            if let Some(s) = spec.scalar {
                return Value::from(Tensor::from_data(&spec.val.shape, vec![s as f32; n]));
            }
            Value::from(Tensor::from_data(&spec.val.shape, (0..n).map(|_| r.range(-8, 8) as f32 * 0.25).collect::<Vec<f32>>()))
        }
        Ty::I | Ty::B => {
            if let Some(s) = spec.scalar {
                return Value::from(Tensor::from_data(&spec.val.shape, vec![s; n]));
            }
            let hi = if spec.val.ty == Ty::B { 1 } else { 5 };
            let lo = if spec.val.ty == Ty::B { 0 } else { -5 };
            Value::from(Tensor::from_data(&spec.val.shape, (0..n).map(|_| r.range(lo, hi) as i32).collect::<Vec<i32>>()))
        }
    }
}

struct Pools {
    p1: Arc<ThreadPool>,
    p2: Arc<ThreadPool>,
    p4: Arc<ThreadPool>,
}

impl Pools {
    fn get(&self, n: usize) -> Arc<ThreadPool> {
        match n {
            0 | 1 => self.p1.clone(),
            2 => self.p2.clone(),
            _ => self.p4.clone(),
        }
    }
}

struct ExecEngine {
    property: String,
    pools: Pools,
    n: u64,
}

fn reference_cfg() -> RunCfg {
    RunCfg { strategy: Some(StrategySpec { seed: 0, refuse_in_place: 256, any_commutative_operand: false, keep_out_of_pool: 256, refuse_by_value_capture: 256, shuffle_plan: false, pool_min_size: None, pool_random_fit: false, pool_miss: 256, poison: None }), threads: 1, owned_mask: 0, prepack: false }
}

fn random_strategy(r: &mut Rng) -> StrategySpec {
    let p = |r: &mut Rng| *r.pick(&[0u16, 0, 32, 128, 256]);
    StrategySpec {
        seed: r.next_u64(),
        refuse_in_place: p(r),
        any_commutative_operand: r.bool(),
        keep_out_of_pool: p(r),
        refuse_by_value_capture: p(r),
        shuffle_plan: r.chance(2, 3),
        pool_min_size: *r.pick(&[None, Some(0), Some(64), Some(128), Some(4096)]),
        pool_random_fit: r.bool(),
        pool_miss: *r.pick(&[0u16, 0, 64, 256]),
        poison: *r.pick(&[None, Some(0x00), Some(0xff), Some(0xa5), Some(0x7f)]),
    }
}

fn random_cfg(r: &mut Rng, n_inputs: usize) -> RunCfg {
    RunCfg {
        strategy: if r.chance(1, 8) { None } else { Some(random_strategy(r)) },
        threads: *r.pick(&[1usize, 1, 1, 2, 4]),
        owned_mask: if r.bool() { 0 } else { r.below(1 << n_inputs.min(8)) as u32 },
        prepack: r.chance(1, 4),
    }
}

#[cfg(rten_verif)]
fn make_strategy(s: &StrategySpec) -> Arc<rten::verif::Strategy> {
    let mut st = rten::verif::Strategy::default();
    st.seed = s.seed;
    st.refuse_in_place = s.refuse_in_place;
    st.any_commutative_operand = s.any_commutative_operand;
    st.keep_out_of_pool = s.keep_out_of_pool;
    st.refuse_by_value_capture = s.refuse_by_value_capture;
    st.shuffle_plan = s.shuffle_plan;
    st.pool_min_size = s.pool_min_size;
    st.pool_random_fit = s.pool_random_fit;
    st.pool_miss = s.pool_miss;
    st.poison = s.poison;
    Arc::new(st)
}

type RunResult = Result<Vec<Canon>, String>;

struct Loaded {
    plain: Model,
    prepacked: Option<Model>,
}

impl ExecEngine {
    /// One run of `model`. Returns Err(panic) / Ok(result).
    fn run_once(&self, loaded: &Loaded, held: &[(NodeId, Value)], out_ids: &[NodeId], cfg: &RunCfg, ctx: &mut Ctx) -> Result<RunResult, simcore::catch::PanicInfo> {
        let model = if cfg.prepack { loaded.prepacked.as_ref().unwrap_or(&loaded.plain) } else { &loaded.plain };
        let mut opts = RunOptions::default();
        opts.thread_pool = Some(self.pools.get(cfg.threads));
        #[cfg(rten_verif)]
        let strategy = cfg.strategy.as_ref().map(make_strategy);
        #[cfg(rten_verif)]
        {
            opts.verif_strategy = strategy.clone();
        }
        let inputs: Vec<(NodeId, ValueOrView)> = held
            .iter()
            .enumerate()
            .map(|(i, (id, v))| if cfg.owned_mask & (1 << i) != 0 { (*id, ValueOrView::Value(v.clone())) } else { (*id, ValueOrView::View(v.as_view())) })
            .collect();
        let r = catch(|| model.run(inputs, out_ids, Some(opts)));
        #[cfg(rten_verif)]
        if let Some(s) = &strategy {
            use std::sync::atomic::Ordering::Relaxed;
            let st = &s.stats;
            ctx.add("probe:ran_in_place", st.in_place_runs.load(Relaxed));
            ctx.add("probe:in_place_refused", st.in_place_refused.load(Relaxed));
            ctx.add("probe:commutative_operand_repicked", st.commutative_repicked.load(Relaxed));
            ctx.add("probe:released_to_pool", st.released_to_pool.load(Relaxed));
            ctx.add("probe:kept_out_of_pool", st.kept_out_of_pool.load(Relaxed));
            ctx.add("probe:captured_by_value", st.by_value_captures.load(Relaxed));
            ctx.add("probe:by_value_refused", st.by_value_refused.load(Relaxed));
            ctx.add("probe:plan_shuffled", st.plans_shuffled.load(Relaxed));
            ctx.add("probe:pool_hit", st.pool_hits.load(Relaxed));
            ctx.add("probe:pool_forced_miss", st.pool_forced_misses.load(Relaxed));
            ctx.add("probe:pool_refit", st.pool_refits.load(Relaxed));
            ctx.add("probe:pool_poisoned_buffer", st.pool_poisoned.load(Relaxed));
        }
        let _ = &ctx;
        r.map(|res| match res {
            Ok(vals) => Ok(vals.iter().map(canon).collect()),
            // "Kind|message class": only the kind is compared between runs
            Err(e) if std::env::var("VERIF_DEBUG_GEN").is_ok() => {
                eprintln!("run error: {e} [{}]", cfg_label(cfg));
                Err(format!("{}|{}|{}", kind_name(&e.kind()), msg_class(&e.to_string()), e.to_string().chars().take(160).collect::<String>()))
            }
            // "Kind|message class|message": only the kind is compared between runs
            Err(e) => Err(format!("{}|{}|{}", kind_name(&e.kind()), msg_class(&e.to_string()), e.to_string().chars().take(160).collect::<String>())),
        })
    }

    fn load(&self, model: &onnxenc::Model, optimize: bool, need_prepack: bool, ctx: &mut Ctx) -> Option<Loaded> {
        let bytes = model.encode();
        let mut o = ModelOptions::with_all_ops();
        o.enable_optimization(optimize);
        let plain = match catch(|| o.load(bytes.clone())) {
            Ok(Ok(m)) => m,
            Ok(Err(e)) => {
                ctx.count("probe:load_failed");
                if std::env::var("VERIF_DEBUG_GEN").is_ok() {
                    eprintln!("load failed: {e}");
                }
                return None;
            }
            Err(_) => {
                ctx.count("probe:load_panicked");
                return None;
            }
        };
        let prepacked = if need_prepack {
            let mut o2 = ModelOptions::with_all_ops();
            o2.enable_optimization(optimize);
            o2.prepack_weights(true);
            catch(|| o2.load(bytes)).ok().and_then(|r| r.ok())
        } else {
            None
        };
        Some(Loaded { plain, prepacked })
    }
}

fn brief(r: &RunResult) -> String {
    match r {
        Ok(v) => format!("Ok{:?}", v.iter().map(|c| (c.1.clone(), fnv64(&c.2.iter().flat_map(|x| x.to_le_bytes()).collect::<Vec<u8>>()) & 0xffff)).collect::<Vec<_>>()),
        Err(e) => format!("Err({})", e.splitn(3, '|').take(2).collect::<Vec<_>>().join("|")),
    }
}

fn kind_name(k: &RunErrorKind) -> String {
    format!("{k:?}")
}

fn kind_of(e: &str) -> &str {
    e.split('|').next().unwrap_or(e)
}

/// Error text reduced to a bounded class: letters only, names and numbers dropped.
fn msg_class(m: &str) -> String {
    // drop quoted node names
    let mut out = String::new();
    let mut in_quote = false;
    for c in m.chars() {
        if c == '"' {
            in_quote = !in_quote;
            continue;
        }
        if in_quote {
            continue;
        }
        if out.len() >= 48 {
            break;
        }
        if c.is_ascii_alphabetic() {
            out.push(c.to_ascii_lowercase());
        } else if !out.ends_with('-') && !out.is_empty() {
            out.push('-');
        }
    }
    out.trim_end_matches('-').to_string()
}

fn cfg_label(cfg: &RunCfg) -> String {
    format!("threads={} owned_mask={:#x} prepack={} strategy={:?}", cfg.threads, cfg.owned_mask, cfg.prepack, cfg.strategy)
}

/// Which strategy dimension most plausibly explains a divergence (bounded key vocabulary).
fn blame(cfg: &RunCfg) -> &'static str {
    match &cfg.strategy {
        None => "shipped-default",
        Some(_) => "strategy",
    }
}

impl Engine for ExecEngine {
    type Case = ExecCase;

    fn name() -> &'static str {
        "sim_exec"
    }
    fn engine_id() -> u64 {
        2
    }
    fn properties() -> Vec<&'static str> {
        vec!["C02", "C24", "C25"]
    }

    fn new(property: &str, tier: Tier, _seed: u64) -> Self {
        let n = match (property, tier) {
            ("C02", Tier::Quick) => 600_000,
            ("C02", Tier::Thorough) => 30_000_000,
            ("C24", Tier::Quick) => 300_000,
            ("C24", Tier::Thorough) => 15_000_000,
            (_, Tier::Quick) => 300_000,
            (_, Tier::Thorough) => 15_000_000,
        };
        ExecEngine {
            property: property.to_string(),
            pools: Pools { p1: Arc::new(ThreadPool::with_num_threads(1)), p2: Arc::new(ThreadPool::with_num_threads(2)), p4: Arc::new(ThreadPool::with_num_threads(4)) },
            n,
        }
    }

    fn info(&self) -> EngineInfo {
        let common_real = vec![
            "rten ONNX loader, graph optimizer, planner, Graph::run / run_plan, BufferPool, weight prepacking, ~60 operator kernels, If / Loop (CaptureEnv)".to_string(),
            "rayon thread pools of 1, 2 and 4 workers (real, uncontrolled; results from more than one worker or from prepacked weights are compared with a 1e-5 relative tolerance, everything else bit-exactly)".to_string(),
        ];
        let stub = vec!["none; hooks under --cfg rten_verif only choose among alternatives the executor may legally take (refuse in-place, other commutative operand, keep a dead value out of the pool, refuse by-value capture, another topological order, pool miss / any fitting buffer / poisoned recycled buffers)".to_string()];
        let (rule, level, probes): (String, &'static str, Vec<&str>) = match self.property.as_str() {
            "C02" => (
                "Seeded ONNX DAGs (2-12 operators from a palette of in-place unary/binary/layout operators, commutative and non-commutative binary operators with broadcasting from either side, Concat, Slice, Gather, Softmax, LayerNormalization, MatMul/Gemm against constants, reductions, Split, Expand, If and Loop bodies with captures; hazards generated on purpose: Add(x,x), Where(c,x,x), Concat(x,x,x), outputs that are also intermediate inputs, constants and inputs requested directly or feeding in-place operators). Each case loads the model (optimisation on or off) and compares 4 seeded executor configurations (strategy knobs x 1/2/4 worker threads x owned/borrowed inputs x prepacking x the shipped default) against the reference strategy. Non-trivial = the reference run succeeded and at least one non-default decision was taken; distinct = hash of the explicit case.".into(),
                "exploration",
                vec!["probe:ran_in_place", "probe:in_place_refused", "probe:commutative_operand_repicked", "probe:released_to_pool", "probe:kept_out_of_pool", "probe:plan_shuffled", "probe:pool_hit", "probe:pool_forced_miss", "probe:pool_poisoned_buffer", "probe:owned_input", "probe:threads>1", "probe:prepacked", "probe:reference_ok", "probe:shipped_default_run"],
            ),
            "C24" => (
                "Seeded ONNX programs that contain at least one If or Loop (nested up to depth 2; branches and bodies capture parent values, which are also consumed or requested after the control-flow operator; carried dependencies; scan outputs; trip counts 0-3; conditions and trip counts are graph inputs so that constant propagation cannot fold them). Oracles: (a) the reference run equals the reference run of the *inlined twin* (selected branch spliced in / body unrolled by the harness) bit for bit; (b) 4 seeded strategies (by-value capture refused or not, in-place inside bodies, pool recycling, shuffled plans) equal the reference, including every parent value requested after the operator; optimisation on and off. Non-trivial = reference succeeded and a by-value capture or an in-place run happened; distinct = hash of the explicit case.".into(),
                "exploration",
                vec!["probe:captured_by_value", "probe:by_value_refused", "probe:ran_in_place", "probe:twin_compared", "probe:if_program", "probe:loop_program", "probe:zero_trip_loop", "probe:reference_ok"],
            ),
            _ => (
                "Seeded histories of 3-8 runs on one loaded model with varying inputs, output sets, strategies, thread counts and owned/borrowed inputs, plus injected failing runs (an input with a wrong rank in the middle of the history). Monitors: borrowed input buffers are byte-identical after every run; every named constant requested as an output at the start and at the end of the history is bit-identical; the first run repeated at the end (one worker) is bit-identical; two consecutive identical one-worker runs (a quarter of the steps repeat their predecessor; inputs are rebuilt for every step, so their addresses and alignment differ) are bit-identical; every step equals the same call on a freshly loaded model; steps may feed an intermediate value as an extra input (a different plan key). Pairs of identical runs on 2/4 workers are compared bitwise too but reported as a statistical probe only. Non-trivial = the history contains at least one successful run with a non-default strategy; distinct = hash of the explicit case.".into(),
                "exploration",
                vec!["probe:history_runs", "probe:bad_input_run", "probe:constants_compared", "probe:borrowed_inputs_checked", "probe:repeat_pair_compared", "probe:ran_in_place", "probe:reference_ok"],
            ),
        };
        EngineInfo {
            level,
            rule,
            real_components: common_real,
            stub_components: stub,
            assumptions: vec![
                "the same load options are used on both sides of every comparison, so load-time rewrites (C01) cannot leak into the verdict".into(),
                "programs whose reference run fails (generator produced an invalid program) only require that every strategy fails with the same error kind".into(),
            ],
            technique: "deterministic simulation: seeded executor-strategy (schedule) exploration through cooperative hooks, differential against the reference strategy and, for C24, against a harness-inlined twin".into(),
            hang_secs: 60,
            expected_probes: probes.into_iter().map(|s| s.to_string()).collect(),
        }
    }

    fn num_cases(&self) -> u64 {
        self.n
    }

    fn make_case(&self, _index: u64, seed: u64) -> ExecCase {
        let mut r = Rng::new(seed);
        let cf = self.property == "C24" || r.chance(1, 5);
        let Program { model, inputs, candidates, .. } = gen::generate(&mut r, cf);
        // the generator chose and declared the requested outputs
        let outs: Vec<Val> = candidates;
        let n_in = inputs.len();
        let runs: Vec<RunCfg> = (0..4).map(|_| random_cfg(&mut r, n_in)).collect();
        let mut history = Vec::new();
        if self.property == "C25" {
            let hl = r.urange(3, 8);
            for i in 0..hl {
                // "twice with the same inputs": repeat the previous run exactly
                if i > 0 && r.chance(1, 4) {
                    if let Some(HistStep::Run { .. }) = history.last() {
                        let again = history.last().unwrap().clone();
                        history.push(again);
                        continue;
                    }
                }
                if i > 0 && r.chance(1, 6) {
                    history.push(HistStep::BadInput { cfg: random_cfg(&mut r, n_in) });
                    continue;
                }
                let k = r.urange(1, outs.len().max(1));
                let mut sel: Vec<usize> = (0..outs.len()).collect();
                r.shuffle(&mut sel);
                sel.truncate(k);
                // only values produced by single-output operators are fed: supplying one output of a multi-output
                // operator whose other output is still needed makes the request ambiguous (the operator runs and
                // writes the supplied value again), and which of the two wins is not something C25 speaks about
                let feedable: Vec<usize> = (0..outs.len()).filter(|i| model.graph.nodes.iter().any(|n| n.outputs.len() == 1 && n.outputs[0] == outs[*i].name)).collect();
                let feed = if outs.len() > 1 && !feedable.is_empty() && r.chance(1, 3) { Some(feedable[r.usize_below(feedable.len())]) } else { None };
                history.push(HistStep::Run { cfg: random_cfg(&mut r, n_in), outputs: sel, variant: r.below(3), feed });
            }
        }
        ExecCase { model, inputs, outputs: outs, optimize: r.chance(2, 3), runs, history, note: "seeded".into() }
    }

    fn run_case(&self, case: &ExecCase, ctx: &mut Ctx) -> Outcome {
        let trivial = |ctx: &mut Ctx, why: &str| {
            ctx.count(why);
            Outcome { executions: 1, ..Default::default() }
        };
        if case.outputs.is_empty() {
            return trivial(ctx, "probe:no_outputs");
        }
        let need_prepack = case.runs.iter().any(|r| r.prepack) || case.history.iter().any(|h| matches!(h, HistStep::Run { cfg, .. } | HistStep::BadInput { cfg } if cfg.prepack));
        let Some(loaded) = self.load(&case.model, case.optimize, need_prepack, ctx) else {
            return Outcome { executions: 1, ..Default::default() };
        };
        let mut held: Vec<(NodeId, Value)> = Vec::new();
        for i in &case.inputs {
            let Some(id) = loaded.plain.find_node(&i.val.name) else { return trivial(ctx, "probe:input_missing") };
            held.push((id, input_value(i, 0)));
        }
        let mut out_ids = Vec::new();
        for o in &case.outputs {
            let Some(id) = loaded.plain.find_node(&o.name) else { return trivial(ctx, "probe:output_missing_after_optimisation") };
            if out_ids.contains(&id) {
                return trivial(ctx, "probe:duplicate_output");
            }
            out_ids.push(id);
        }
        let mut trace: Vec<u64> = Vec::new();
        let mut executions = 0u64;
        let mut nontrivial = false;
        let prop = self.property.as_str();

        // ---- reference run ---------------------------------------------------------
        executions += 1;
        let mut reference_panicked = false;
        let reference = match self.run_once(&loaded, &held, &out_ids, &reference_cfg(), ctx) {
            Ok(r) => r,
            // C24 still asks the inlined twin: a control-flow program that panics where the inlined program runs
            Err(p) if prop == "C24" => {
                ctx.count("probe:reference_panicked");
                reference_panicked = true;
                Err(format!("Panic|{}|{}", panic_site(&p), p.message.lines().next().unwrap_or("")))
            }
            Err(_) => return trivial(ctx, "probe:reference_panicked"),
        };
        match &reference {
            Ok(v) => {
                ctx.count("probe:reference_ok");
                for c in v {
                    trace.push(fnv64(&c.2.iter().flat_map(|x| x.to_le_bytes()).collect::<Vec<u8>>()));
                }
            }
            Err(k) => {
                ctx.count(&format!("probe:reference_err:{}", kind_of(k)));
                trace.push(fnv64(k.as_bytes()));
            }
        }
        fn has_op(g: &onnxenc::Graph, op: &str) -> bool {
            g.nodes.iter().any(|n| n.op_type == op || n.attrs.iter().any(|(_, a)| matches!(a, onnxenc::Attr::Graph(g2) if has_op(g2, op))))
        }
        let has_if = has_op(&case.model.graph, "If");
        let has_loop = has_op(&case.model.graph, "Loop");
        if has_if {
            ctx.count("probe:if_program");
        }
        if has_loop {
            ctx.count("probe:loop_program");
            if case.inputs.iter().any(|i| i.val.ty == Ty::I && i.scalar == Some(0)) {
                ctx.count("probe:zero_trip_loop");
            }
        }

        let mut violation: Option<Violation> = None;

        // ---- C24 (a): the inlined twin ------------------------------------------------
        if prop == "C24" && (has_if || has_loop) {
            let zero_trip = has_loop && case.inputs.iter().any(|i| i.val.ty == Ty::I && i.scalar == Some(0));
            // reference-strategy run of `m` (loaded with `optimize`) for the requested outputs
            let run_ref = |m: &onnxenc::Model, optimize: bool, ctx: &mut Ctx, executions: &mut u64| -> Option<RunResult> {
                let l = self.load(m, optimize, false, ctx)?;
                let mut h = Vec::new();
                for (i, (_, v)) in case.inputs.iter().zip(&held) {
                    // an input only used by a control-flow operator disappears from the twin
                    if let Some(id) = l.plain.find_node(&i.val.name) {
                        h.push((id, v.clone()));
                    }
                }
                let mut o = Vec::new();
                for out in &case.outputs {
                    o.push(l.plain.find_node(&out.name)?);
                }
                *executions += 1;
                match self.run_once(&l, &h, &o, &reference_cfg(), ctx) {
                    Ok(r) => Some(r),
                    Err(p) => Some(Err(format!("Panic|{}|{}", panic_site(&p), p.message.lines().next().unwrap_or("")))),
                }
            };
            let agree = |a: &RunResult, b: &RunResult| match (a, b) {
                (Ok(x), Ok(y)) => x.len() == y.len() && x.iter().zip(y).all(|(p, q)| same_exact(p, q)),
                (Err(_), Err(_)) => true,
                _ => false,
            };
            // Values the control-flow program evaluates whatever is requested (all
            // outputs of the branch / body iterations that run, everything captured by
            // any branch or body): the inlined program is asked for them too, or the
            // planner would prune operators there that the control-flow program runs.
            let (twin_model, forced) = twin::inline(&case.model, &case.inputs);
            let run_twin = |m: &onnxenc::Model, ctx: &mut Ctx, executions: &mut u64| -> Option<RunResult> {
                let l = self.load(m, false, false, ctx)?;
                let mut h = Vec::new();
                for (i, (_, v)) in case.inputs.iter().zip(&held) {
                    if let Some(id) = l.plain.find_node(&i.val.name) {
                        h.push((id, v.clone()));
                    }
                }
                let mut o = Vec::new();
                for out in &case.outputs {
                    o.push(l.plain.find_node(&out.name)?);
                }
                let n_compare = o.len();
                for f in &forced {
                    if let Some(id) = l.plain.find_node(f) {
                        if !o.contains(&id) {
                            o.push(id);
                        }
                    }
                }
                *executions += 1;
                let r = self.run_once(&l, &h, &o, &reference_cfg(), ctx).ok()?;
                Some(r.map(|mut v| {
                    v.truncate(n_compare);
                    v
                }))
            };
            // Pure control-flow semantics: both sides without optimisation, so that
            // load-time rewrites (C01, not claimed) cannot decide this verdict.
            let cf_off = if case.optimize { run_ref(&case.model, false, ctx, &mut executions) } else { Some(reference.clone()) };
            // (c) optimisation must not take away a value that a branch or body captures: the optimised
            // program may not fail to *plan* a control-flow operator that the unoptimised program runs.
            if let (true, Some(Ok(_)), Err(e)) = (case.optimize, &cf_off, &reference) {
                fn cf_names(g: &onnxenc::Graph, out: &mut Vec<String>) {
                    for n in &g.nodes {
                        if n.op_type == "If" || n.op_type == "Loop" {
                            out.push(n.name.clone());
                        }
                        for (_, a) in &n.attrs {
                            if let onnxenc::Attr::Graph(g2) = a {
                                cf_names(g2, out);
                            }
                        }
                    }
                }
                let mut names = Vec::new();
                cf_names(&case.model.graph, &mut names);
                let raw = e.splitn(3, '|').nth(2).unwrap_or("");
                ctx.count("probe:optimised_fails_unoptimised_runs");
                if kind_of(e) == "PlanningError" && raw.contains("Missing input") && names.iter().any(|n| raw.contains(&format!("for op \"{n}\""))) {
                    violation = Some(Violation::new(
                        "C24/optimised-program-lost-a-captured-value",
                        format!("with optimisation on the run fails with `{raw}` but the unoptimised program runs: a value captured by a branch or body no longer exists"),
                    ));
                }
            }
            match (twin_model, cf_off) {
                _ if violation.is_some() => {}
                (None, _) => ctx.count("probe:not_inlinable"),
                (_, None) => ctx.count("probe:cf_unoptimised_not_runnable"),
                (Some(twin), Some(cf_off)) => match run_twin(&twin, ctx, &mut executions) {
                    None => ctx.count("probe:twin_not_runnable"),
                    Some(t_off) => {
                        ctx.count("probe:twin_compared");
                        if !agree(&cf_off, &t_off) {
                            match (&cf_off, &t_off) {
                                (Ok(a), Ok(b)) => {
                                    let i = (0..a.len().min(b.len())).find(|i| !same_exact(&a[*i], &b[*i])).unwrap_or(0);
                                    violation = Some(Violation::new(
                                        "C24/differs-from-inlined-twin/value",
                                        format!("output {:?}: the control-flow program gives shape {:?} bits {:?}…, the inlined program shape {:?} bits {:?}… (reference strategy, optimisation off on both)", case.outputs[i].name, a[i].1, &a[i].2[..a[i].2.len().min(6)], b[i].1, &b[i].2[..b[i].2.len().min(6)]),
                                    ));
                                }
                                (Err(e), Ok(_)) => {
                                    // one finding class: a Loop that runs zero iterations returns no value
                                    // for its scan outputs, so the executor reports an output mismatch
                                    let key = if zero_trip && e.contains("output-mismatch") {
                                        "C24/zero-trip-loop-scan-output-missing".to_string()
                                    } else if kind_of(e) == "Panic" {
                                        format!("C24/panics-where-inlined-twin-succeeds/{}", e.splitn(3, '|').nth(1).unwrap_or("?"))
                                    } else {
                                        format!("C24/fails-where-inlined-twin-succeeds/{}", e.splitn(3, '|').take(2).collect::<Vec<_>>().join("|"))
                                    };
                                    violation = Some(Violation::new(
                                        key,
                                        format!("the control-flow program fails with {e} but the same program with the branch/body inlined runs (requested outputs {:?}, optimisation off)", case.outputs.iter().map(|o| &o.name).collect::<Vec<_>>()),
                                    ));
                                }
                                _ => ctx.count("probe:twin_failed_but_cf_ok"),
                            }
                        }
                    }
                },
            }
        }

        // ---- C02 / C24 (b): strategies against the reference ---------------------------
        if violation.is_none() && prop != "C25" && !reference_panicked {
            for (ri, cfg) in case.runs.iter().enumerate() {
                executions += 1;
                if cfg.owned_mask != 0 {
                    ctx.count("probe:owned_input");
                }
                if cfg.threads > 1 {
                    ctx.count("probe:threads>1");
                }
                if cfg.prepack {
                    ctx.count("probe:prepacked");
                }
                if cfg.strategy.is_none() {
                    ctx.count("probe:shipped_default_run");
                }
                let r = match self.run_once(&loaded, &held, &out_ids, cfg, ctx) {
                    Ok(r) => r,
                    Err(_) if reference.is_err() => {
                        // The program fails under the reference strategy too. Which failing
                        // operator is reached first (and whether it reports an error or
                        // panics) legitimately depends on the operator order.
                        ctx.count("probe:failing_program_panicked_under_other_order");
                        continue;
                    }
                    Err(p) => {
                        violation = Some(Violation::new(
                            format!("{prop}/panic/{}/{}", blame(cfg), panic_site(&p)),
                            format!("run {ri} panicked although the reference run did not: {} at {} [{}]", p.message, p.location, cfg_label(cfg)),
                        ));
                        break;
                    }
                };
                let exact = cfg.threads <= 1 && !cfg.prepack;
                match (&reference, &r) {
                    (Ok(a), Ok(b)) => {
                        nontrivial = true;
                        if let Some(i) = (0..a.len()).find(|i| if exact { !same_exact(&a[*i], &b[*i]) } else { !same_tolerant(&a[*i], &b[*i]) }) {
                            if cfg.threads > 1 {
                                // More worker threads legitimately change the accumulation order, and a
                                // discontinuous operator downstream (Mod, Floor, Round, a comparison, ArgMax ...)
                                // can turn the last bit into a different answer. Before blaming the strategy, run
                                // the *reference* strategy (not prepacked) with the same thread count: if this run
                                // agrees with that one, the thread count alone made the difference.
                                let same_pool = RunCfg { threads: cfg.threads, ..reference_cfg() };
                                executions += 1;
                                if let Ok(Ok(c)) = self.run_once(&loaded, &held, &out_ids, &same_pool, ctx) {
                                    if c.len() == b.len() && c.iter().zip(b).all(|(x, y)| same_tolerant(x, y)) {
                                        ctx.count("probe:differs_from_one_thread_reference_by_thread_count_only");
                                        continue;
                                    }
                                }
                            }
                            violation = Some(Violation::new(
                                format!("{prop}/result-depends-on-strategy/{}", blame(cfg)),
                                format!(
                                    "output {:?} (index {i}): reference shape {:?} bits {:?}…, this run shape {:?} bits {:?}… [run {ri}: {}]",
                                    case.outputs[i].name,
                                    a[i].1,
                                    &a[i].2[..a[i].2.len().min(6)],
                                    b[i].1,
                                    &b[i].2[..b[i].2.len().min(6)],
                                    cfg_label(cfg)
                                ),
                            ));
                            break;
                        }
                    }
                    (Err(a), Err(b)) => {
                        // a failing program may fail at a different operator under another order
                        if kind_of(a) != kind_of(b) {
                            ctx.count("probe:failing_program_other_error_kind");
                        }
                    }
                    (Ok(_), Err(e)) => {
                        violation = Some(Violation::new(format!("{prop}/fails-only-under-strategy/{}", blame(cfg)), format!("reference succeeds, run {ri} fails with {e} [{}]", cfg_label(cfg))));
                        break;
                    }
                    (Err(e), Ok(_)) => {
                        violation = Some(Violation::new(format!("{prop}/succeeds-only-under-strategy/{}", blame(cfg)), format!("reference fails with {e}, run {ri} succeeds [{}]", cfg_label(cfg))));
                        break;
                    }
                }
            }
        }

        // ---- C25: history monitors -----------------------------------------------------
        if prop == "C25" && reference.is_ok() {
            // named constants of the main graph, requested as outputs
            let const_ids: Vec<(String, NodeId)> = case.model.graph.initializers.iter().filter_map(|t| loaded.plain.find_node(&t.name).map(|id| (t.name.clone(), id))).take(6).collect();
            let read_consts = |this: &Self, ctx: &mut Ctx| -> Option<Vec<Canon>> {
                if const_ids.is_empty() {
                    return Some(vec![]);
                }
                let ids: Vec<NodeId> = const_ids.iter().map(|(_, id)| *id).collect();
                this.run_once(&loaded, &[], &ids, &reference_cfg(), ctx).ok().and_then(|r| r.ok())
            };
            let consts_before = read_consts(self, ctx);
            let mut first: Option<(RunCfg, Vec<NodeId>, Vec<(NodeId, Value)>, RunResult)> = None;
            let mut prev: Option<(RunCfg, Vec<usize>, u64, Option<usize>, RunResult)> = None;
            'hist: for (hi, step) in case.history.iter().enumerate() {
                match step {
                    HistStep::BadInput { cfg } => {
                        ctx.count("probe:bad_input_run");
                        if held.is_empty() {
                            continue;
                        }
                        let mut bad = held.clone();
                        let spec = &case.inputs[0];
                        let mut shape = spec.val.shape.clone();
                        shape.push(2);
                        let n: usize = shape.iter().product();
                        bad[0].1 = match spec.val.ty {
                            Ty::F => Value::from(Tensor::from_data(&shape, vec![0.5f32; n])),
                            _ => Value::from(Tensor::from_data(&shape, vec![1i32; n])),
                        };
                        executions += 1;
                        match self.run_once(&loaded, &bad, &out_ids, cfg, ctx) {
                            Err(p) => {
                                violation = Some(Violation::new(format!("C25/panic/bad-input/{}", panic_site(&p)), format!("history step {hi}: a run with a wrong-rank input panicked: {} at {}", p.message, p.location)));
                                break 'hist;
                            }
                            Ok(_) => {}
                        }
                    }
                    HistStep::Run { cfg, outputs, variant, feed } => {
                        let ids: Vec<NodeId> = outputs.iter().filter_map(|i| out_ids.get(*i).copied()).collect();
                        if ids.is_empty() {
                            continue;
                        }
                        let mut these: Vec<(NodeId, Value)> = case.inputs.iter().zip(&held).map(|(spec, (id, _))| (*id, input_value(spec, *variant))).collect();
                        if let Some(f) = feed.and_then(|f| case.outputs.get(f).map(|v| (f, v))) {
                            // an intermediate value supplied by the caller: a different input set for the same graph
                            if let Some(id) = out_ids.get(f.0) {
                                if !these.iter().any(|(h, _)| h == id) {
                                    let spec = InputSpec { val: f.1.clone(), seed: 0xfeed, scalar: None };
                                    these.push((*id, input_value(&spec, *variant)));
                                    ctx.count("probe:history_run_with_fed_intermediate");
                                }
                            }
                        }
                        let before: Vec<Canon> = these.iter().map(|(_, v)| canon(v)).collect();
                        executions += 1;
                        ctx.count("probe:history_runs");
                        let r = match self.run_once(&loaded, &these, &ids, cfg, ctx) {
                            Ok(r) => r,
                            Err(p) => {
                                // A panic is C25's business only if the history caused it: the same call on a
                                // freshly loaded model must not panic (otherwise it is the operator's own
                                // defect, e.g. integer overflow in a checked build, which C25 says nothing about).
                                let fresh_panics = match self.load(&case.model, case.optimize, cfg.prepack, ctx) {
                                    Some(fresh) => self.run_once(&fresh, &these, &ids, cfg, ctx).is_err(),
                                    None => true,
                                };
                                if fresh_panics {
                                    ctx.count("probe:run_panics_on_fresh_model_too");
                                    continue;
                                }
                                violation = Some(Violation::new(format!("C25/panic/run/{}", panic_site(&p)), format!("history step {hi} panicked: {} at {} [{}] but the same call on a freshly loaded model does not", p.message, p.location, cfg_label(cfg))));
                                break 'hist;
                            }
                        };
                        if r.is_ok() && cfg.strategy.is_some() {
                            nontrivial = true;
                        }
                        // (v) the same call on a freshly loaded model gives the same result: no earlier run
                        // (with other inputs, another input set, other outputs) may have left anything behind
                        if hi > 0 {
                            if let Some(fresh) = self.load(&case.model, case.optimize, cfg.prepack, ctx) {
                                executions += 1;
                                if let Ok(rf) = self.run_once(&fresh, &these, &ids, cfg, ctx) {
                                    ctx.count("probe:compared_with_fresh_model");
                                    let equal = match (&r, &rf) {
                                        (Ok(a), Ok(b)) => a.len() == b.len() && a.iter().zip(b).all(|(x, y)| if cfg.threads <= 1 && !cfg.prepack { same_exact(x, y) } else { same_tolerant(x, y) }),
                                        (Err(a), Err(b)) => kind_of(a) == kind_of(b),
                                        _ => false,
                                    };
                                    if !equal {
                                        let what = match (&r, &rf) {
                                            (Ok(_), Ok(_)) => "values",
                                            (Err(_), Ok(_)) => "fails",
                                            (Ok(_), Err(_)) => "succeeds",
                                            _ => "error-kind",
                                        };
                                        violation = Some(Violation::new(
                                            format!("C25/run-affected-later-run/{what}"),
                                            format!("history step {hi} (outputs {outputs:?}, fed intermediate {feed:?}) differs from the same call on a freshly loaded model: {} vs {} [{}]", brief(&r), brief(&rf), cfg_label(cfg)),
                                        ));
                                        break 'hist;
                                    }
                                }
                            }
                        }
                        // (i) borrowed inputs untouched
                        ctx.count("probe:borrowed_inputs_checked");
                        for (k, (_, v)) in these.iter().enumerate() {
                            if cfg.owned_mask & (1 << k) == 0 && canon(v) != before[k] {
                                violation = Some(Violation::new("C25/borrowed-input-modified", format!("history step {hi}: borrowed input {:?} changed during the run [{}]", case.inputs[k].val.name, cfg_label(cfg))));
                                break 'hist;
                            }
                        }
                        // (iv) the same run twice in a row
                        if let Some((pc, po, pv, pf, pr)) = &prev {
                            if pc == cfg && po == outputs && pv == variant && pf == feed {
                                ctx.count("probe:repeat_pair_compared");
                                let equal = match (pr, &r) {
                                    (Ok(a), Ok(b)) => a.len() == b.len() && a.iter().zip(b).all(|(x, y)| same_exact(x, y)),
                                    (Err(a), Err(b)) => kind_of(a) == kind_of(b),
                                    _ => false,
                                };
                                if !equal {
                                    if cfg.threads <= 1 {
                                        violation = Some(Violation::new("C25/not-deterministic/consecutive-runs", format!("history steps {} and {hi} are the same run but differ [{}]", hi - 1, cfg_label(cfg))));
                                        break 'hist;
                                    } else {
                                        ctx.count("probe:multi_thread_pair_not_bit_identical");
                                    }
                                }
                            }
                        }
                        if first.is_none() {
                            first = Some((cfg.clone(), ids.clone(), these.clone(), r.clone()));
                        }
                        prev = Some((cfg.clone(), outputs.clone(), *variant, *feed, r));
                    }
                }
            }
            // (iii) the first run again, at the end of the history
            if violation.is_none() {
                if let Some((cfg, ids, these, r0)) = &first {
                    let mut c1 = cfg.clone();
                    c1.threads = 1;
                    executions += 1;
                    let again = self.run_once(&loaded, &these, ids, &c1, ctx);
                    if cfg.threads <= 1 {
                        match again {
                            Ok(r1) => {
                                let equal = match (r0, &r1) {
                                    (Ok(a), Ok(b)) => a.len() == b.len() && a.iter().zip(b).all(|(x, y)| same_exact(x, y)),
                                    (Err(a), Err(b)) => kind_of(a) == kind_of(b),
                                    _ => false,
                                };
                                if !equal {
                                    violation = Some(Violation::new("C25/run-affected-later-run", format!("the first run of the history, repeated after {} more steps, gives a different result [{}]", case.history.len(), cfg_label(cfg))));
                                }
                            }
                            Err(p) => violation = Some(Violation::new(format!("C25/panic/run/{}", panic_site(&p)), format!("repeat of the first run panicked: {} at {}", p.message, p.location))),
                        }
                    }
                }
            }
            // (ii) constants untouched
            if violation.is_none() {
                let consts_after = read_consts(self, ctx);
                ctx.count("probe:constants_compared");
                if let (Some(a), Some(b)) = (&consts_before, &consts_after) {
                    if let Some(i) = (0..a.len().min(b.len())).find(|i| a[*i] != b[*i]) {
                        violation = Some(Violation::new("C25/constant-modified", format!("constant {:?} differs after the history of runs", const_ids[i].0)));
                    }
                }
            }
        }

        Outcome { violation, nontrivial, steps: executions, trace_hash: mix(&trace), executions, ..Default::default() }
    }

    fn shrink(&self, case: &ExecCase) -> Vec<ExecCase> {
        let mut out = Vec::new();
        // fewer strategy runs / history steps
        if case.runs.len() > 1 {
            for i in 0..case.runs.len() {
                let mut c = case.clone();
                c.runs.remove(i);
                out.push(c);
            }
        }
        for i in (0..case.history.len()).rev() {
            let mut c = case.clone();
            c.history.remove(i);
            out.push(c);
        }
        for i in 0..case.history.len() {
            if let HistStep::Run { feed: Some(_), .. } = &case.history[i] {
                let mut c = case.clone();
                if let HistStep::Run { feed, .. } = &mut c.history[i] {
                    *feed = None;
                }
                out.push(c);
            }
        }
        // fewer requested outputs
        if case.outputs.len() > 1 && case.history.is_empty() {
            for i in 0..case.outputs.len() {
                let mut c = case.clone();
                c.outputs.remove(i);
                out.push(c);
            }
        }
        // drop operators whose outputs nobody uses
        let used = |m: &onnxenc::Model, name: &str, skip: usize| -> bool {
            fn in_graph(g: &onnxenc::Graph, name: &str) -> bool {
                g.nodes.iter().any(|n| n.inputs.iter().any(|i| i == name) || n.attrs.iter().any(|(_, a)| matches!(a, onnxenc::Attr::Graph(g2) if in_graph(g2, name)))) || g.outputs.iter().any(|o| o.name == name)
            }
            m.graph.nodes.iter().enumerate().any(|(j, n)| j != skip && (n.inputs.iter().any(|i| i == name) || n.attrs.iter().any(|(_, a)| matches!(a, onnxenc::Attr::Graph(g2) if in_graph(g2, name)))))
        };
        for i in (0..case.model.graph.nodes.len()).rev() {
            let n = &case.model.graph.nodes[i];
            if n.outputs.iter().all(|o| o.is_empty() || (!used(&case.model, o, i) && !case.outputs.iter().any(|v| v.name == *o))) {
                let mut c = case.clone();
                c.model.graph.nodes.remove(i);
                c.model.graph.outputs.retain(|o| !n.outputs.contains(&o.name));
                out.push(c);
            }
        }
        // simpler configurations
        for (i, cfg) in case.runs.iter().enumerate() {
            let mut simpler: Vec<RunCfg> = Vec::new();
            if cfg.threads != 1 {
                simpler.push(RunCfg { threads: 1, ..cfg.clone() });
            }
            if cfg.owned_mask != 0 {
                simpler.push(RunCfg { owned_mask: 0, ..cfg.clone() });
            }
            if cfg.prepack {
                simpler.push(RunCfg { prepack: false, ..cfg.clone() });
            }
            if let Some(s) = &cfg.strategy {
                let d = reference_cfg().strategy.unwrap();
                let mut knobs: Vec<StrategySpec> = Vec::new();
                if s.shuffle_plan {
                    knobs.push(StrategySpec { shuffle_plan: false, ..s.clone() });
                }
                if s.any_commutative_operand {
                    knobs.push(StrategySpec { any_commutative_operand: false, ..s.clone() });
                }
                if s.refuse_in_place != d.refuse_in_place {
                    knobs.push(StrategySpec { refuse_in_place: 256, ..s.clone() });
                }
                if s.keep_out_of_pool != d.keep_out_of_pool {
                    knobs.push(StrategySpec { keep_out_of_pool: 256, ..s.clone() });
                }
                if s.refuse_by_value_capture != d.refuse_by_value_capture {
                    knobs.push(StrategySpec { refuse_by_value_capture: 256, ..s.clone() });
                }
                if s.pool_miss != 256 {
                    knobs.push(StrategySpec { pool_miss: 256, ..s.clone() });
                }
                if s.poison.is_some() {
                    knobs.push(StrategySpec { poison: None, ..s.clone() });
                }
                if s.pool_random_fit {
                    knobs.push(StrategySpec { pool_random_fit: false, ..s.clone() });
                }
                if s.pool_min_size.is_some() {
                    knobs.push(StrategySpec { pool_min_size: None, ..s.clone() });
                }
                for k in knobs {
                    simpler.push(RunCfg { strategy: Some(k), ..cfg.clone() });
                }
            }
            for s in simpler {
                let mut c = case.clone();
                c.runs[i] = s;
                out.push(c);
            }
        }
        if case.optimize {
            out.push(ExecCase { optimize: false, ..case.clone() });
        }
        out
    }

    fn sample(&self, case: &ExecCase) -> serde_json::Value {
        fn ops(g: &onnxenc::Graph) -> Vec<String> {
            g.nodes
                .iter()
                .map(|n| {
                    let sub: Vec<String> = n.attrs.iter().filter_map(|(k, a)| if let onnxenc::Attr::Graph(g2) = a { Some(format!("{k}:[{}]", ops(g2).join(" "))) } else { None }).collect();
                    format!("{}({})->{}{}", n.op_type, n.inputs.join(","), n.outputs.join(","), if sub.is_empty() { String::new() } else { format!(" {{{}}}", sub.join(" ")) })
                })
                .collect()
        }
        serde_json::json!({
            "program": ops(&case.model.graph),
            "inputs": case.inputs.iter().map(|i| format!("{}:{:?}{:?}{}", i.val.name, i.val.ty, i.val.shape, i.scalar.map(|s| format!("={s}")).unwrap_or_default())).collect::<Vec<_>>(),
            "requested_outputs": case.outputs.iter().map(|o| o.name.clone()).collect::<Vec<_>>(),
            "optimize": case.optimize,
            "runs": case.runs,
            "history_len": case.history.len(),
        })
    }
}

fn main() {
    driver::main::<ExecEngine>();
}
