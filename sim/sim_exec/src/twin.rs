//! The "inlined twin" of a control-flow program (C24): every `If` is replaced
//! by the nodes of the selected branch and every `Loop` by its body unrolled
//! for the trip count, for the scalar inputs the case will feed. Evaluating
//! the twin is "evaluating the selected branch or the loop body iterations
//! directly with the captured parent values".

use crate::gen::InputSpec;
use onnxenc::{dtype, Attr, Graph, Model, Node, Tensor, ValueInfo};
use std::collections::BTreeMap;

struct Inliner<'a> {
    known: BTreeMap<&'a str, i32>,
    counter: usize,
}

/// Names used inside `g` (at any depth) that `g` does not define itself: the
/// values it captures from enclosing graphs.
fn free_vars(g: &Graph, out: &mut Vec<String>) {
    let mut defined: Vec<&str> = g.inputs.iter().map(|i| i.name.as_str()).collect();
    defined.extend(g.initializers.iter().map(|t| t.name.as_str()));
    for n in &g.nodes {
        defined.extend(n.outputs.iter().map(|o| o.as_str()));
    }
    let mut used: Vec<String> = Vec::new();
    for n in &g.nodes {
        used.extend(n.inputs.iter().filter(|i| !i.is_empty()).cloned());
        for (_, a) in &n.attrs {
            if let Attr::Graph(g2) = a {
                free_vars(g2, &mut used);
            }
        }
    }
    for u in used {
        if !defined.contains(&u.as_str()) && !out.contains(&u) {
            out.push(u);
        }
    }
}

fn rename(name: &str, map: &BTreeMap<String, String>) -> String {
    map.get(name).cloned().unwrap_or_else(|| name.to_string())
}

impl<'a> Inliner<'a> {
    fn fresh(&mut self, p: &str) -> String {
        self.counter += 1;
        format!("tw_{p}{}", self.counter)
    }

    /// Flatten `g`: returns its nodes with every If/Loop replaced, plus all
    /// initializers (own and those of inlined bodies). `None` if the program
    /// cannot be inlined (condition or trip count not a known input).
    /// The third result lists values the control-flow program evaluates no
    /// matter what is requested (every output of a branch or loop body that
    /// runs, every value captured by any branch or body); the inlined program
    /// must be made to evaluate them too, or the planner would prune them.
    fn flatten(&mut self, g: &Graph) -> Option<(Vec<Node>, Vec<Tensor>, Vec<String>)> {
        let mut nodes = Vec::new();
        let mut inits = g.initializers.clone();
        let mut forced: Vec<String> = Vec::new();
        for n in &g.nodes {
            match n.op_type.as_str() {
                "If" => {
                    let cond = *self.known.get(n.inputs.first()?.as_str())?;
                    let attr = if cond != 0 { "then_branch" } else { "else_branch" };
                    let Some((_, Attr::Graph(branch))) = n.attrs.iter().find(|(k, _)| k == attr) else { return None };
                    for (_, a) in &n.attrs {
                        if let Attr::Graph(any_branch) = a {
                            free_vars(any_branch, &mut forced);
                        }
                    }
                    let (bn, bi, bf) = self.flatten(branch)?;
                    nodes.extend(bn);
                    inits.extend(bi);
                    forced.extend(bf);
                    forced.extend(branch.outputs.iter().map(|o| o.name.clone()));
                    for (bo, out) in branch.outputs.iter().zip(&n.outputs) {
                        if !out.is_empty() {
                            nodes.push(Node::new("Identity", &[&bo.name], &[out]).named(&self.fresh("n")));
                        }
                    }
                }
                "Loop" => {
                    let trip = (*self.known.get(n.inputs.first()?.as_str())?).max(0) as usize;
                    let Some((_, Attr::Graph(body))) = n.attrs.iter().find(|(k, _)| k == "body") else { return None };
                    let ncarried = n.inputs.len().checked_sub(2)?;
                    free_vars(body, &mut forced);
                    // the operator itself needs every explicit input (the initial carried values), whether or
                    // not the requested outputs depend on them
                    forced.extend(n.inputs.iter().skip(2).filter(|i| !i.is_empty()).cloned());
                    let (body_nodes, body_inits, body_forced) = self.flatten(body)?;
                    let mut carried: Vec<String> = n.inputs[2..].to_vec();
                    let nscan = body.outputs.len().checked_sub(1 + ncarried)?;
                    let mut scans: Vec<Vec<String>> = vec![Vec::new(); nscan];
                    for it in 0..trip {
                        // names defined inside the body get a per-iteration suffix
                        let mut map: BTreeMap<String, String> = BTreeMap::new();
                        for bn in &body_nodes {
                            for o in &bn.outputs {
                                if !o.is_empty() {
                                    map.insert(o.clone(), format!("{o}_u{it}_{}", self.counter));
                                }
                            }
                        }
                        for t in &body_inits {
                            map.insert(t.name.clone(), format!("{}_u{it}_{}", t.name, self.counter));
                        }
                        // body inputs: iteration number, condition, carried values
                        let iter_name = self.fresh("iter");
                        inits.push(Tensor::i64(&iter_name, &[], &[it as i64]));
                        map.insert(body.inputs[0].name.clone(), iter_name);
                        let cond_name = self.fresh("cond");
                        inits.push(Tensor::bool(&cond_name, &[], &[true]));
                        map.insert(body.inputs[1].name.clone(), cond_name);
                        for (k, c) in carried.iter().enumerate() {
                            map.insert(body.inputs[2 + k].name.clone(), c.clone());
                        }
                        for t in &body_inits {
                            let mut t2 = t.clone();
                            t2.name = rename(&t.name, &map);
                            inits.push(t2);
                        }
                        for bn in &body_nodes {
                            let mut n2 = bn.clone();
                            n2.name = self.fresh("n");
                            n2.inputs = bn.inputs.iter().map(|i| rename(i, &map)).collect();
                            n2.outputs = bn.outputs.iter().map(|o| rename(o, &map)).collect();
                            nodes.push(n2);
                        }
                        forced.extend(body_forced.iter().map(|f| rename(f, &map)));
                        forced.extend(body.outputs.iter().map(|o| rename(&o.name, &map)));
                        carried = (0..ncarried).map(|k| rename(&body.outputs[1 + k].name, &map)).collect();
                        for (k, sc) in scans.iter_mut().enumerate() {
                            sc.push(rename(&body.outputs[1 + ncarried + k].name, &map));
                        }
                        self.counter += 1;
                    }
                    for (k, c) in carried.iter().enumerate() {
                        if let Some(out) = n.outputs.get(k).filter(|o| !o.is_empty()) {
                            nodes.push(Node::new("Identity", &[c], &[out]).named(&self.fresh("n")));
                        }
                    }
                    for (k, sc) in scans.iter().enumerate() {
                        let Some(out) = n.outputs.get(ncarried + k).filter(|o| !o.is_empty()) else { continue };
                        if sc.is_empty() {
                            continue; // zero iterations: no value (see DESIGN.md, C24)
                        }
                        let axes = self.fresh("axes");
                        inits.push(Tensor::i64(&axes, &[1], &[0]));
                        let mut parts = Vec::new();
                        for v in sc {
                            let u = self.fresh("us");
                            nodes.push(Node::new("Unsqueeze", &[v, &axes], &[&u]).named(&self.fresh("n")));
                            parts.push(u);
                        }
                        let refs: Vec<&str> = parts.iter().map(|p| p.as_str()).collect();
                        nodes.push(Node::new("Concat", &refs, &[out]).named(&self.fresh("n")).attr("axis", Attr::Int(0)));
                    }
                }
                _ => nodes.push(n.clone()),
            }
        }
        Some((nodes, inits, forced))
    }
}

pub fn inline(model: &Model, inputs: &[InputSpec]) -> (Option<Model>, Vec<String>) {
    let mut known = BTreeMap::new();
    for i in inputs {
        if let Some(s) = i.scalar {
            known.insert(i.val.name.as_str(), s);
        }
    }
    let mut inl = Inliner { known, counter: 0 };
    let Some((nodes, inits, forced)) = inl.flatten(&model.graph) else { return (None, vec![]) };
    let graph = Graph { name: "twin".into(), nodes, initializers: inits, inputs: model.graph.inputs.clone(), outputs: model.graph.outputs.clone(), value_info: vec![] };
    let _ = (dtype::FLOAT, ValueInfo::untyped(""));
    let mut twin = model.clone();
    twin.graph = graph;
    (Some(twin), forced)
}
