//! Seeded generator of ONNX programs for the executor-strategy engine.
//!
//! Programs are DAGs over a palette chosen for what the executor treats
//! specially (in-place unary / binary / layout operators, commutative
//! operators, multi-output operators, control flow with captures), with the
//! hazards the property names generated on purpose: a value consumed twice by
//! one operator, graph outputs that are also intermediate inputs, constants
//! and inputs feeding in-place operators or requested directly, captured
//! values used again after the control-flow operator, zero-iteration loops.

use onnxenc::{dtype, Attr, Dim, Graph, Model, Node, Tensor, TensorData, ValueInfo};
use serde::{Deserialize, Serialize};
use simcore::rng::Rng;

#[derive(Clone, Copy, Debug, PartialEq, Eq, Serialize, Deserialize)]
pub enum Ty {
    F,
    I,
    B,
}

#[derive(Clone, Debug, Serialize, Deserialize, PartialEq)]
pub struct Val {
    pub name: String,
    pub ty: Ty,
    pub shape: Vec<usize>,
}

impl Val {
    pub fn numel(&self) -> usize {
        self.shape.iter().product()
    }
}

/// A graph input with the data to feed it.
#[derive(Clone, Debug, Serialize, Deserialize, PartialEq)]
pub struct InputSpec {
    pub val: Val,
    pub seed: u64,
    /// Scalar override (trip counts, conditions).
    pub scalar: Option<i32>,
}

#[derive(Clone, Debug, Serialize, Deserialize)]
pub struct Program {
    pub model: Model,
    pub inputs: Vec<InputSpec>,
    /// Values that may be requested as outputs (name, type, shape).
    pub candidates: Vec<Val>,
    pub has_control_flow: bool,
}

pub struct Gen<'r> {
    r: &'r mut Rng,
    counter: usize,
    pub inputs: Vec<InputSpec>,
    /// Integer tensors only (results are then exact whatever the kernels do in parallel).
    pub int_only: bool,
}

fn onnx_ty(t: Ty) -> i32 {
    match t {
        Ty::F => dtype::FLOAT,
        Ty::I => dtype::INT32,
        Ty::B => dtype::BOOL,
    }
}

fn i64s(name: &str, v: &[i64]) -> Tensor {
    Tensor::i64(name, &[v.len() as i64], v)
}

/// One graph under construction (main graph or a control-flow body).
pub struct Scope {
    pub nodes: Vec<Node>,
    pub inits: Vec<Tensor>,
    /// Values visible here (own values and, for bodies, captured parent values).
    pub vals: Vec<Val>,
    /// Values produced in this scope.
    pub own: Vec<Val>,
    pub depth: usize,
}

fn broadcast(a: &[usize], b: &[usize]) -> Option<Vec<usize>> {
    let n = a.len().max(b.len());
    let mut out = vec![0; n];
    for i in 0..n {
        let x = if i + a.len() >= n { a[i + a.len() - n] } else { 1 };
        let y = if i + b.len() >= n { b[i + b.len() - n] } else { 1 };
        out[i] = if x == y || y == 1 {
            x
        } else if x == 1 {
            y
        } else {
            return None;
        };
    }
    Some(out)
}

impl<'r> Gen<'r> {
    pub fn new(r: &'r mut Rng) -> Gen<'r> {
        Gen { r, counter: 0, inputs: Vec::new(), int_only: false }
    }

    fn fresh(&mut self, p: &str) -> String {
        self.counter += 1;
        format!("{p}{}", self.counter)
    }

    fn rand_shape(&mut self) -> Vec<usize> {
        // now and then a long innermost dimension: vectorised kernels take their unrolled main loops, and
        // reductions sum hundreds of contiguous elements (shorter lanes only ever reach the scalar tails)
        if self.r.chance(1, 24) {
            // (rarely long enough for kernels that switch to parallel reductions above a size threshold)
            let long = if self.r.chance(1, 12) { 40_000 } else { *self.r.pick(&[257usize, 300, 520, 777, 1030]) };
            return match self.r.below(3) {
                0 => vec![long],
                1 => vec![*self.r.pick(&[1usize, 2, 3]), long],
                _ => vec![long, *self.r.pick(&[1usize, 2, 3])],
            };
        }
        let rank = *self.r.pick(&[1usize, 1, 2, 2, 2, 3, 3, 4]);
        let big = self.r.chance(1, 3);
        (0..rank).map(|_| if big { *self.r.pick(&[1usize, 2, 3, 4, 6, 8]) } else { *self.r.pick(&[1usize, 1, 2, 2, 3, 4]) }).collect()
    }

    fn const_tensor(&mut self, name: &str, ty: Ty, shape: &[usize]) -> Tensor {
        let n: usize = shape.iter().product();
        let dims: Vec<i64> = shape.iter().map(|d| *d as i64).collect();
        match ty {
            Ty::F => {
                let v: Vec<f32> = (0..n).map(|_| (self.r.range(-8, 8) as f32) * 0.25).collect();
                // alternate between raw and typed storage
                if self.r.bool() {
                    Tensor::f32(name, &dims, &v)
                } else {
                    Tensor { name: name.into(), dims, dtype: dtype::FLOAT, data: TensorData::F32(v) }
                }
            }
            Ty::I => {
                let v: Vec<i32> = (0..n).map(|_| self.r.range(-3, 3) as i32).collect();
                Tensor::i32(name, &dims, &v)
            }
            Ty::B => {
                let v: Vec<bool> = (0..n).map(|_| self.r.bool()).collect();
                Tensor::bool(name, &dims, &v)
            }
        }
    }

    fn add_const(&mut self, s: &mut Scope, ty: Ty, shape: &[usize]) -> Val {
        let name = self.fresh("k");
        let t = self.const_tensor(&name, ty, shape);
        s.inits.push(t);
        let v = Val { name, ty, shape: shape.to_vec() };
        s.vals.push(v.clone());
        v
    }

    pub fn add_input(&mut self, s: &mut Scope, ty: Ty, shape: &[usize], scalar: Option<i32>) -> Val {
        let name = self.fresh("in");
        let v = Val { name, ty, shape: shape.to_vec() };
        self.inputs.push(InputSpec { val: v.clone(), seed: self.r.next_u64(), scalar });
        s.vals.push(v.clone());
        v
    }

    fn pick_val(&mut self, s: &Scope, f: impl Fn(&Val) -> bool) -> Option<Val> {
        let c: Vec<&Val> = s.vals.iter().filter(|v| f(v)).collect();
        if c.is_empty() {
            None
        } else {
            // bias towards recently produced values so that chains form
            let k = c.len();
            let idx = if self.r.chance(2, 3) { k - 1 - self.r.usize_below(k.min(3)) } else { self.r.usize_below(k) };
            Some(c[idx].clone())
        }
    }

    fn emit(&mut self, s: &mut Scope, op: &str, inputs: &[&str], ty: Ty, shape: Vec<usize>, attrs: Vec<(&str, Attr)>) -> Val {
        let out = self.fresh("v");
        // Broadcasting two long values against each other (e.g. [1, 40000] with [1, 40000, 1]) would ask
        // for billions of elements: such an operator is not emitted (the value it would have produced is
        // not offered to later operators either; a caller that still names it gets a model that does not load).
        if shape.iter().product::<usize>() > (1 << 20) {
            return Val { name: out, ty, shape };
        }
        let mut n = Node::new(op, inputs, &[out.as_str()]).named(&self.fresh("n"));
        for (k, a) in attrs {
            n = n.attr(k, a);
        }
        s.nodes.push(n);
        let v = Val { name: out, ty, shape };
        s.vals.push(v.clone());
        s.own.push(v.clone());
        v
    }

    /// Add one random operator to `s`. Returns false if nothing applicable was found.
    pub fn add_op(&mut self, s: &mut Scope, allow_cf: bool) -> bool {
        // a quarter of the operators come from the extended palette (every remaining in-place capable
        // family, pooling/convolution, scatter/gather, multi-output and sequence operators)
        if self.r.chance(1, 4) {
            return self.add_extended_op(s);
        }
        let k = self.r.below(if allow_cf && s.depth < 2 { 30 } else { 26 });
        match k {
            0..=3 => {
                // in-place capable unary
                let Some(x) = self.pick_val(s, |v| v.ty != Ty::B) else { return false };
                let ops: &[&str] = if x.ty == Ty::F { &["Relu", "Neg", "Abs", "Sigmoid", "Tanh", "Erf", "Floor", "Ceil", "Identity", "Sqrt", "Exp"] } else { &["Neg", "Abs", "Identity", "Sign"] };
                let op = *self.r.pick(ops);
                self.emit(s, op, &[&x.name], x.ty, x.shape.clone(), vec![]);
                true
            }
            4 => {
                let Some(x) = self.pick_val(s, |v| v.ty == Ty::F) else { return false };
                let lo = self.add_const(s, Ty::F, &[]);
                let hi = self.add_const(s, Ty::F, &[]);
                if self.r.bool() {
                    self.emit(s, "Clip", &[&x.name, &lo.name, &hi.name], Ty::F, x.shape.clone(), vec![]);
                } else {
                    let alpha = 0.125 * self.r.range(1, 4) as f32;
                    self.emit(s, "LeakyRelu", &[&x.name], Ty::F, x.shape.clone(), vec![("alpha", Attr::Float(alpha))]);
                }
                true
            }
            5 => {
                if self.int_only {
                    return false;
                }
                let Some(x) = self.pick_val(s, |v| v.ty != Ty::B) else { return false };
                let to = if x.ty == Ty::F { Ty::I } else { Ty::F };
                // keep integers small: infinities would become i32::MIN/MAX, and integer kernels overflow
                let x = if x.ty == Ty::F {
                    let name_lo = self.fresh("k");
                    let name_hi = self.fresh("k");
                    s.inits.push(Tensor::f32(&name_lo, &[], &[-100.0]));
                    s.inits.push(Tensor::f32(&name_hi, &[], &[100.0]));
                    self.emit(s, "Clip", &[&x.name, &name_lo, &name_hi], Ty::F, x.shape.clone(), vec![])
                } else {
                    x
                };
                self.emit(s, "Cast", &[&x.name], to, x.shape.clone(), vec![("to", Attr::Int(onnx_ty(to) as i64))]);
                true
            }
            6..=10 => {
                // binary with broadcasting; commutative and non-commutative
                let Some(a) = self.pick_val(s, |v| v.ty != Ty::B) else { return false };
                let b = match self.r.below(6) {
                    0 => a.clone(), // the same value twice
                    1 | 2 => {
                        // a constant that broadcasts against `a` from either side
                        let shape: Vec<usize> = match self.r.below(4) {
                            0 => vec![],
                            1 => vec![*a.shape.last().unwrap_or(&1)],
                            2 => a.shape.iter().map(|d| if self.r.bool() { *d } else { 1 }).collect(),
                            _ => {
                                let mut sh = vec![*self.r.pick(&[2usize, 3])];
                                sh.extend(a.shape.iter());
                                if sh.len() > 4 { a.shape.clone() } else { sh }
                            }
                        };
                        self.add_const(s, a.ty, &shape)
                    }
                    _ => match self.pick_val(s, |v| v.ty == a.ty && broadcast(&a.shape, &v.shape).is_some()) {
                        Some(b) => b,
                        None => return false,
                    },
                };
                let Some(shape) = broadcast(&a.shape, &b.shape) else { return false };
                let ops: &[&str] = if a.ty == Ty::F { &["Add", "Mul", "Sub", "Div", "Max", "Min", "Add", "Mul"] } else { &["Add", "Sub", "Max", "Min", "Add"] };
                let op = *self.r.pick(ops);
                let (x, y) = if self.r.bool() { (&a, &b) } else { (&b, &a) };
                self.emit(s, op, &[&x.name, &y.name], a.ty, shape, vec![]);
                true
            }
            11 => {
                let Some(a) = self.pick_val(s, |v| v.ty != Ty::B) else { return false };
                let Some(b) = self.pick_val(s, |v| v.ty == a.ty && broadcast(&a.shape, &v.shape).is_some()) else { return false };
                let shape = broadcast(&a.shape, &b.shape).unwrap();
                let op = *self.r.pick(&["Less", "Greater", "Equal"]);
                let c = self.emit(s, op, &[&a.name, &b.name], Ty::B, shape.clone(), vec![]);
                // Where(cond, x, x-like): hazard "a value consumed twice by one operator"
                if self.r.bool() {
                    if let Some(x) = self.pick_val(s, |v| v.ty != Ty::B && broadcast(&shape, &v.shape) == Some(shape.clone())) {
                        let y = if self.r.bool() { x.clone() } else { self.pick_val(s, |v| v.ty == x.ty && broadcast(&shape, &v.shape) == Some(shape.clone())).unwrap_or(x.clone()) };
                        self.emit(s, "Where", &[&c.name, &x.name, &y.name], x.ty, shape, vec![]);
                    }
                }
                true
            }
            12 => {
                let Some(a) = self.pick_val(s, |v| v.ty == Ty::B) else { return false };
                if self.r.bool() {
                    self.emit(s, "Not", &[&a.name], Ty::B, a.shape.clone(), vec![]);
                } else {
                    let Some(b) = self.pick_val(s, |v| v.ty == Ty::B && broadcast(&a.shape, &v.shape).is_some()) else { return false };
                    let shape = broadcast(&a.shape, &b.shape).unwrap();
                    let op = *self.r.pick(&["And", "Or", "Xor"]);
                    self.emit(s, op, &[&a.name, &b.name], Ty::B, shape, vec![]);
                }
                true
            }
            13 | 14 => {
                // layout operators that can run in place
                let Some(x) = self.pick_val(s, |v| v.numel() > 0) else { return false };
                match self.r.below(4) {
                    0 => {
                        let n = x.numel();
                        let mut dims = vec![];
                        let mut rest = n;
                        for f in [2usize, 3, 2] {
                            if rest % f == 0 && rest > f && self.r.bool() {
                                dims.push(f);
                                rest /= f;
                            }
                        }
                        dims.push(rest);
                        self.r.shuffle(&mut dims);
                        let mut spec: Vec<i64> = dims.iter().map(|d| *d as i64).collect();
                        if self.r.chance(1, 3) {
                            let i = self.r.usize_below(spec.len());
                            spec[i] = -1;
                        }
                        let name = self.fresh("k");
                        s.inits.push(i64s(&name, &spec));
                        self.emit(s, "Reshape", &[&x.name, &name], x.ty, dims, vec![]);
                    }
                    1 => {
                        if x.shape.len() < 2 {
                            return false;
                        }
                        let mut perm: Vec<usize> = (0..x.shape.len()).collect();
                        self.r.shuffle(&mut perm);
                        let shape = perm.iter().map(|p| x.shape[*p]).collect();
                        self.emit(s, "Transpose", &[&x.name], x.ty, shape, vec![("perm", Attr::Ints(perm.iter().map(|p| *p as i64).collect()))]);
                    }
                    2 => {
                        if x.shape.len() >= 4 {
                            return false;
                        }
                        let pos = self.r.urange(0, x.shape.len());
                        let mut shape = x.shape.clone();
                        shape.insert(pos, 1);
                        let name = self.fresh("k");
                        s.inits.push(i64s(&name, &[pos as i64]));
                        self.emit(s, "Unsqueeze", &[&x.name, &name], x.ty, shape, vec![]);
                    }
                    _ => {
                        let axis = self.r.urange(0, x.shape.len());
                        let a: usize = x.shape[..axis].iter().product();
                        let b: usize = x.shape[axis..].iter().product();
                        self.emit(s, "Flatten", &[&x.name], x.ty, vec![a, b], vec![("axis", Attr::Int(axis as i64))]);
                    }
                }
                true
            }
            15 => {
                // Concat: may run in place when the first input has spare capacity
                let Some(a) = self.pick_val(s, |v| !v.shape.is_empty()) else { return false };
                let axis = self.r.usize_below(a.shape.len());
                let same_except = |v: &Val| v.ty == a.ty && v.shape.len() == a.shape.len() && v.shape.iter().zip(&a.shape).enumerate().all(|(i, (x, y))| i == axis || x == y);
                let b = if self.r.chance(1, 3) { a.clone() } else { self.pick_val(s, same_except).unwrap_or(a.clone()) };
                let mut shape = a.shape.clone();
                shape[axis] += b.shape[axis];
                let mut ins = vec![a.name.clone(), b.name.clone()];
                if self.r.chance(1, 4) {
                    ins.push(a.name.clone());
                    shape[axis] += a.shape[axis];
                }
                let refs: Vec<&str> = ins.iter().map(|x| x.as_str()).collect();
                self.emit(s, "Concat", &refs, a.ty, shape, vec![("axis", Attr::Int(axis as i64))]);
                true
            }
            16 => {
                let Some(x) = self.pick_val(s, |v| !v.shape.is_empty() && v.numel() > 0) else { return false };
                let axis = self.r.usize_below(x.shape.len());
                let d = x.shape[axis];
                let start = self.r.usize_below(d);
                let end = self.r.urange(start + 1, d);
                let step = if end - start > 1 && self.r.bool() { 2 } else { 1 };
                let mut shape = x.shape.clone();
                shape[axis] = (end - start).div_ceil(step);
                let (n1, n2, n3, n4) = (self.fresh("k"), self.fresh("k"), self.fresh("k"), self.fresh("k"));
                s.inits.push(i64s(&n1, &[start as i64]));
                s.inits.push(i64s(&n2, &[end as i64]));
                s.inits.push(i64s(&n3, &[axis as i64]));
                s.inits.push(i64s(&n4, &[step as i64]));
                self.emit(s, "Slice", &[&x.name, &n1, &n2, &n3, &n4], x.ty, shape, vec![]);
                true
            }
            17 => {
                let Some(x) = self.pick_val(s, |v| !v.shape.is_empty() && v.numel() > 0) else { return false };
                let axis = self.r.usize_below(x.shape.len());
                let n = self.r.urange(1, 3);
                let idx: Vec<i64> = (0..n).map(|_| self.r.usize_below(x.shape[axis]) as i64).collect();
                let name = self.fresh("k");
                s.inits.push(i64s(&name, &idx));
                let mut shape = x.shape.clone();
                shape[axis] = n;
                self.emit(s, "Gather", &[&x.name, &name], x.ty, shape, vec![("axis", Attr::Int(axis as i64))]);
                true
            }
            18 => {
                let Some(x) = self.pick_val(s, |v| v.ty == Ty::F && !v.shape.is_empty() && v.numel() > 0) else { return false };
                let axis = self.r.usize_below(x.shape.len()) as i64;
                let op = *self.r.pick(&["Softmax", "LogSoftmax"]);
                self.emit(s, op, &[&x.name], Ty::F, x.shape.clone(), vec![("axis", Attr::Int(axis))]);
                true
            }
            19 => {
                let Some(x) = self.pick_val(s, |v| v.ty == Ty::F && !v.shape.is_empty() && v.numel() > 0) else { return false };
                let d = *x.shape.last().unwrap();
                let scale = self.add_const(s, Ty::F, &[d]);
                let bias = self.add_const(s, Ty::F, &[d]);
                self.emit(s, "LayerNormalization", &[&x.name, &scale.name, &bias.name], Ty::F, x.shape.clone(), vec![("axis", Attr::Int(-1)), ("epsilon", Attr::Float(1e-5))]);
                true
            }
            20 | 21 => {
                // MatMul / Gemm against a constant weight (prepacking applies)
                let Some(x) = self.pick_val(s, |v| v.ty == Ty::F && v.shape.len() >= 2 && v.numel() > 0) else { return false };
                let k = *x.shape.last().unwrap();
                // a long depth dimension gets a wide weight matrix now and then: several depth blocks with a
                // partial last one, and several column blocks once the pool has more than one thread
                let n = if k >= 257 && k <= 2000 && self.r.bool() { *self.r.pick(&[256usize, 300, 512]) } else { *self.r.pick(&[1usize, 2, 3, 5, 8]) };
                if k == 20 || x.shape.len() != 2 || self.r.bool() {
                    let w = self.add_const(s, Ty::F, &[k, n]);
                    let mut shape = x.shape.clone();
                    *shape.last_mut().unwrap() = n;
                    self.emit(s, "MatMul", &[&x.name, &w.name], Ty::F, shape, vec![]);
                } else {
                    let trans_b = self.r.bool();
                    let w = self.add_const(s, Ty::F, &if trans_b { [n, k] } else { [k, n] });
                    let c = self.add_const(s, Ty::F, &[n]);
                    let m = x.shape[0];
                    self.emit(s, "Gemm", &[&x.name, &w.name, &c.name], Ty::F, vec![m, n], vec![("transB", Attr::Int(trans_b as i64)), ("alpha", Attr::Float(0.5)), ("beta", Attr::Float(1.0))]);
                }
                true
            }
            22 => {
                let Some(x) = self.pick_val(s, |v| v.ty != Ty::B && !v.shape.is_empty() && v.numel() > 0) else { return false };
                let axis = self.r.usize_below(x.shape.len());
                let keep = self.r.bool();
                let mut shape = x.shape.clone();
                if keep {
                    shape[axis] = 1;
                } else {
                    shape.remove(axis);
                }
                let name = self.fresh("k");
                s.inits.push(i64s(&name, &[axis as i64]));
                let op = if x.ty == Ty::F { *self.r.pick(&["ReduceSum", "ReduceMean", "ReduceMax"]) } else { *self.r.pick(&["ReduceSum", "ReduceMax"]) };
                self.emit(s, op, &[&x.name, &name], x.ty, shape, vec![("keepdims", Attr::Int(keep as i64))]);
                true
            }
            23 => {
                // Split: multi-output
                let Some(x) = self.pick_val(s, |v| !v.shape.is_empty() && v.shape.iter().any(|d| *d >= 2)) else { return false };
                let axes: Vec<usize> = (0..x.shape.len()).filter(|a| x.shape[*a] >= 2).collect();
                let axis = *self.r.pick(&axes);
                let d = x.shape[axis];
                let first = self.r.urange(1, d - 1);
                let name = self.fresh("k");
                s.inits.push(i64s(&name, &[first as i64, (d - first) as i64]));
                let (o1, o2) = (self.fresh("v"), self.fresh("v"));
                let n = Node::new("Split", &[&x.name, &name], &[&o1, &o2]).named(&self.fresh("n")).attr("axis", Attr::Int(axis as i64));
                s.nodes.push(n);
                for (o, len) in [(o1, first), (o2, d - first)] {
                    let mut shape = x.shape.clone();
                    shape[axis] = len;
                    let v = Val { name: o, ty: x.ty, shape };
                    s.vals.push(v.clone());
                    s.own.push(v);
                }
                true
            }
            24 | 25 => {
                let Some(x) = self.pick_val(s, |v| v.shape.len() <= 3) else { return false };
                let mut shape = vec![*self.r.pick(&[2usize, 3])];
                shape.extend(x.shape.iter().map(|d| if *d == 1 && self.r.bool() { 2 } else { *d }));
                let name = self.fresh("k");
                s.inits.push(i64s(&name, &shape.iter().map(|d| *d as i64).collect::<Vec<_>>()));
                self.emit(s, "Expand", &[&x.name, &name], x.ty, shape, vec![]);
                true
            }
            26 | 27 => self.add_if(s),
            _ => self.add_loop(s),
        }
    }

    fn scalar_i64(&mut self, s: &mut Scope, v: &[i64]) -> String {
        let name = self.fresh("k");
        s.inits.push(i64s(&name, v));
        name
    }

    /// Operators beyond the core palette. Shapes recorded for the outputs are predictions used only to
    /// pick compatible operands later; a wrong prediction merely makes a later operator fail the same
    /// way under every strategy.
    fn add_extended_op(&mut self, s: &mut Scope) -> bool {
        let io = self.int_only;
        match self.r.below(25) {
            0 | 1 => {
                // the rest of the unary float family (one macro in rten, but one kernel each)
                if io {
                    return false;
                }
                let Some(x) = self.pick_val(s, |v| v.ty == Ty::F) else { return false };
                let op = *self.r.pick(&["Acos", "Asin", "Atan", "Acosh", "Asinh", "Atanh", "Cos", "Cosh", "Elu", "Gelu", "HardSigmoid", "HardSwish", "Log", "Reciprocal", "Round", "Sin", "Sinh", "Softplus", "Tan", "Swish"]);
                let attrs = match op {
                    "Elu" | "Swish" => vec![("alpha", Attr::Float(0.5))],
                    "HardSigmoid" => vec![("alpha", Attr::Float(0.25)), ("beta", Attr::Float(0.5))],
                    _ => vec![],
                };
                self.emit(s, op, &[&x.name], Ty::F, x.shape.clone(), attrs);
                true
            }
            2 => {
                if io {
                    return false;
                }
                let Some(x) = self.pick_val(s, |v| v.ty == Ty::F) else { return false };
                let op = *self.r.pick(&["IsNaN", "IsInf"]);
                self.emit(s, op, &[&x.name], Ty::B, x.shape.clone(), vec![]);
                true
            }
            3 => {
                // Pow / PRelu / Mod / comparisons with equality
                let Some(a) = self.pick_val(s, |v| v.ty != Ty::B) else { return false };
                match self.r.below(4) {
                    0 if a.ty == Ty::F => {
                        let e = self.add_const(s, Ty::F, &[]);
                        let (x, y) = if self.r.chance(3, 4) { (&a, &e) } else { (&e, &a) };
                        self.emit(s, "Pow", &[&x.name, &y.name], Ty::F, a.shape.clone(), vec![]);
                    }
                    1 if a.ty == Ty::F => {
                        let shape: Vec<usize> = if self.r.bool() { vec![] } else { vec![*a.shape.last().unwrap_or(&1)] };
                        let slope = self.add_const(s, Ty::F, &shape);
                        self.emit(s, "PRelu", &[&a.name, &slope.name], Ty::F, a.shape.clone(), vec![]);
                    }
                    2 => {
                        // non-zero divisor
                        let name = self.fresh("k");
                        let d = *self.r.pick(&[2i32, 3, -2, 5]);
                        if a.ty == Ty::F {
                            s.inits.push(Tensor::f32(&name, &[], &[d as f32]));
                        } else {
                            s.inits.push(Tensor::i32(&name, &[], &[d]));
                        }
                        let fmod = (a.ty == Ty::F) as i64;
                        self.emit(s, "Mod", &[&a.name, &name], a.ty, a.shape.clone(), vec![("fmod", Attr::Int(fmod))]);
                    }
                    _ => {
                        let Some(b) = self.pick_val(s, |v| v.ty == a.ty && broadcast(&a.shape, &v.shape).is_some()) else { return false };
                        let shape = broadcast(&a.shape, &b.shape).unwrap();
                        let op = *self.r.pick(&["GreaterOrEqual", "LessOrEqual"]);
                        self.emit(s, op, &[&a.name, &b.name], Ty::B, shape, vec![]);
                    }
                }
                true
            }
            4 => {
                // variadic Mean / Sum / Max / Min
                if io {
                    return false;
                }
                let Some(a) = self.pick_val(s, |v| v.ty == Ty::F) else { return false };
                let n = self.r.urange(1, 3);
                let mut names = vec![a.name.clone()];
                let mut shape = a.shape.clone();
                for _ in 1..n {
                    let sh = shape.clone();
                    let b = if self.r.chance(1, 3) { a.clone() } else { self.pick_val(s, |v| v.ty == Ty::F && broadcast(&sh, &v.shape).is_some()).unwrap_or(a.clone()) };
                    shape = broadcast(&shape, &b.shape).unwrap_or(shape);
                    names.push(b.name);
                }
                let refs: Vec<&str> = names.iter().map(|x| x.as_str()).collect();
                let op = *self.r.pick(&["Mean", "Sum", "Max", "Min"]);
                self.emit(s, op, &refs, Ty::F, shape, vec![]);
                true
            }
            5 => {
                // Squeeze a size-1 axis
                let Some(x) = self.pick_val(s, |v| v.shape.iter().any(|d| *d == 1)) else { return false };
                let axes: Vec<usize> = (0..x.shape.len()).filter(|a| x.shape[*a] == 1).collect();
                let axis = *self.r.pick(&axes);
                let mut shape = x.shape.clone();
                shape.remove(axis);
                let name = self.scalar_i64(s, &[axis as i64]);
                self.emit(s, "Squeeze", &[&x.name, &name], x.ty, shape, vec![]);
                true
            }
            6 => {
                // normalisation over channels: [N, C, ...]
                if io {
                    return false;
                }
                let Some(x) = self.pick_val(s, |v| v.ty == Ty::F && v.shape.len() >= 3 && v.numel() > 0) else { return false };
                let c = x.shape[1];
                let scale = self.add_const(s, Ty::F, &[c]);
                let bias = self.add_const(s, Ty::F, &[c]);
                if self.r.bool() {
                    let mean = self.add_const(s, Ty::F, &[c]);
                    let name = self.fresh("k");
                    let var: Vec<f32> = (0..c).map(|_| 0.25 * self.r.range(1, 8) as f32).collect();
                    s.inits.push(Tensor::f32(&name, &[c as i64], &var));
                    self.emit(s, "BatchNormalization", &[&x.name, &scale.name, &bias.name, &mean.name, &name], Ty::F, x.shape.clone(), vec![("epsilon", Attr::Float(1e-5))]);
                } else {
                    self.emit(s, "InstanceNormalization", &[&x.name, &scale.name, &bias.name], Ty::F, x.shape.clone(), vec![("epsilon", Attr::Float(1e-5))]);
                }
                true
            }
            7 => {
                if io {
                    return false;
                }
                let Some(x) = self.pick_val(s, |v| v.ty == Ty::F && !v.shape.is_empty() && v.numel() > 0) else { return false };
                if self.r.bool() {
                    let d = *x.shape.last().unwrap();
                    let scale = self.add_const(s, Ty::F, &[d]);
                    self.emit(s, "RMSNormalization", &[&x.name, &scale.name], Ty::F, x.shape.clone(), vec![("axis", Attr::Int(-1)), ("epsilon", Attr::Float(1e-5))]);
                } else {
                    let axis = self.r.usize_below(x.shape.len()) as i64;
                    let p = *self.r.pick(&[1i64, 2]);
                    self.emit(s, "LpNormalization", &[&x.name], Ty::F, x.shape.clone(), vec![("axis", Attr::Int(axis)), ("p", Attr::Int(p))]);
                }
                true
            }
            8 => {
                // more reductions
                let Some(x) = self.pick_val(s, |v| v.ty != Ty::B && !v.shape.is_empty() && v.numel() > 0) else { return false };
                let axis = self.r.usize_below(x.shape.len());
                let keep = self.r.bool();
                let mut shape = x.shape.clone();
                if keep {
                    shape[axis] = 1;
                } else {
                    shape.remove(axis);
                }
                let name = self.scalar_i64(s, &[axis as i64]);
                let op = if x.ty == Ty::F { *self.r.pick(&["ReduceMin", "ReduceProd", "ReduceSumSquare", "ReduceLogSumExp", "ReduceLogSum", "ReduceL2"]) } else { "ReduceMin" };
                if op == "ReduceL2" {
                    return false;
                }
                self.emit(s, op, &[&x.name, &name], x.ty, shape, vec![("keepdims", Attr::Int(keep as i64))]);
                true
            }
            9 => {
                let Some(x) = self.pick_val(s, |v| v.ty != Ty::B && !v.shape.is_empty() && v.numel() > 0) else { return false };
                let axis = self.r.usize_below(x.shape.len());
                let name = self.fresh("k");
                s.inits.push(Tensor::i32(&name, &[], &[axis as i32]));
                let (ex, rev) = (self.r.bool() as i64, self.r.bool() as i64);
                self.emit(s, "CumSum", &[&x.name, &name], x.ty, x.shape.clone(), vec![("exclusive", Attr::Int(ex)), ("reverse", Attr::Int(rev))]);
                true
            }
            10 => {
                let Some(x) = self.pick_val(s, |v| !v.shape.is_empty() && v.numel() > 0 && v.numel() <= 64) else { return false };
                let reps: Vec<usize> = x.shape.iter().map(|_| *self.r.pick(&[1usize, 1, 2, 3])).collect();
                let shape: Vec<usize> = x.shape.iter().zip(&reps).map(|(d, r)| d * r).collect();
                let name = self.scalar_i64(s, &reps.iter().map(|r| *r as i64).collect::<Vec<_>>());
                self.emit(s, "Tile", &[&x.name, &name], x.ty, shape, vec![]);
                true
            }
            11 => {
                let Some(x) = self.pick_val(s, |v| v.ty != Ty::B && !v.shape.is_empty() && v.numel() > 0) else { return false };
                let rank = x.shape.len();
                let pads: Vec<usize> = (0..2 * rank).map(|_| *self.r.pick(&[0usize, 0, 1, 2])).collect();
                let shape: Vec<usize> = (0..rank).map(|i| x.shape[i] + pads[i] + pads[i + rank]).collect();
                let name = self.scalar_i64(s, &pads.iter().map(|p| *p as i64).collect::<Vec<_>>());
                let mode = if self.r.chance(1, 3) && x.shape.iter().all(|d| *d >= 3) { "reflect" } else { "constant" };
                let mut ins = vec![x.name.clone(), name];
                if mode == "constant" && self.r.bool() {
                    let c = self.add_const(s, x.ty, &[]);
                    ins.push(c.name);
                }
                let refs: Vec<&str> = ins.iter().map(|x| x.as_str()).collect();
                self.emit(s, "Pad", &refs, x.ty, shape, vec![("mode", Attr::Str(mode.into()))]);
                true
            }
            12 => {
                let Some(x) = self.pick_val(s, |v| v.ty != Ty::B && v.shape.len() >= 2 && v.numel() > 0) else { return false };
                let upper = self.r.bool() as i64;
                if self.r.bool() {
                    let kv = self.r.range(-1, 1);
                    let k = self.scalar_i64(s, &[kv]);
                    let k_scalar = self.fresh("k");
                    // scalar k: reshape the 1-element initializer into rank 0
                    if let Some(t) = s.inits.iter().find(|t| t.name == k).cloned() {
                        let mut t2 = t;
                        t2.name = k_scalar.clone();
                        t2.dims = vec![];
                        s.inits.push(t2);
                    }
                    self.emit(s, "Trilu", &[&x.name, &k_scalar], x.ty, x.shape.clone(), vec![("upper", Attr::Int(upper))]);
                } else {
                    self.emit(s, "Trilu", &[&x.name], x.ty, x.shape.clone(), vec![("upper", Attr::Int(upper))]);
                }
                true
            }
            13 => {
                let Some(x) = self.pick_val(s, |v| v.ty != Ty::B && !v.shape.is_empty() && v.numel() > 0) else { return false };
                let axis = self.r.usize_below(x.shape.len());
                let keep = self.r.bool();
                let mut shape = x.shape.clone();
                if keep {
                    shape[axis] = 1;
                } else {
                    shape.remove(axis);
                }
                let op = *self.r.pick(&["ArgMax", "ArgMin"]);
                self.emit(s, op, &[&x.name], Ty::I, shape, vec![("axis", Attr::Int(axis as i64)), ("keepdims", Attr::Int(keep as i64))]);
                true
            }
            14 => {
                // TopK: multi-output
                let Some(x) = self.pick_val(s, |v| v.ty != Ty::B && !v.shape.is_empty() && v.numel() > 0) else { return false };
                let axis = self.r.usize_below(x.shape.len());
                // rten's TopK comparator is not a total order on NaNs (NaN vs NaN is "greater" both ways), and
                // selecting among hundreds of thousands of NaNs then takes minutes: an operator defect that none
                // of the properties checked here is about, so long axes are left out
                if x.shape[axis] > 4096 {
                    return false;
                }
                // (a partial sort of a 40 000-element axis for thousands of winners takes a minute per run)
                let k = self.r.urange(1, x.shape[axis].min(16));
                let kname = self.scalar_i64(s, &[k as i64]);
                let (o1, o2) = (self.fresh("v"), self.fresh("v"));
                let largest = self.r.bool() as i64;
                let n = Node::new("TopK", &[&x.name, &kname], &[&o1, &o2]).named(&self.fresh("n")).attr("axis", Attr::Int(axis as i64)).attr("largest", Attr::Int(largest));
                s.nodes.push(n);
                let mut shape = x.shape.clone();
                shape[axis] = k;
                for (o, ty) in [(o1, x.ty), (o2, Ty::I)] {
                    let v = Val { name: o, ty, shape: shape.clone() };
                    s.vals.push(v.clone());
                    s.own.push(v);
                }
                true
            }
            15 => {
                // GatherElements / ScatterElements with constant indices
                let Some(x) = self.pick_val(s, |v| v.ty != Ty::B && !v.shape.is_empty() && v.numel() > 0) else { return false };
                let axis = self.r.usize_below(x.shape.len());
                let mut ishape = x.shape.clone();
                ishape[axis] = self.r.urange(1, x.shape[axis]);
                let n: usize = ishape.iter().product();
                let idx: Vec<i32> = (0..n).map(|_| self.r.usize_below(x.shape[axis]) as i32).collect();
                let iname = self.fresh("k");
                s.inits.push(Tensor::i32(&iname, &ishape.iter().map(|d| *d as i64).collect::<Vec<_>>(), &idx));
                if self.r.bool() {
                    self.emit(s, "GatherElements", &[&x.name, &iname], x.ty, ishape, vec![("axis", Attr::Int(axis as i64))]);
                } else {
                    let upd = self.add_const(s, x.ty, &ishape);
                    let red = *self.r.pick(&["none", "add", "max"]);
                    self.emit(s, "ScatterElements", &[&x.name, &iname, &upd.name], x.ty, x.shape.clone(), vec![("axis", Attr::Int(axis as i64)), ("reduction", Attr::Str(red.into()))]);
                }
                true
            }
            16 | 17 => {
                // convolution and pooling on [N, C, H, W] / [N, C, W]
                if io {
                    return false;
                }
                let Some(x) = self.pick_val(s, |v| v.ty == Ty::F && (v.shape.len() == 4 || v.shape.len() == 3) && v.numel() > 0) else { return false };
                let spatial = x.shape.len() - 2;
                let c = x.shape[1];
                let ks: Vec<usize> = x.shape[2..].iter().map(|d| (*self.r.pick(&[1usize, 2, 3])).min(*d)).collect();
                let pad = self.r.bool();
                let pads: Vec<i64> = if pad { vec![1; 2 * spatial] } else { vec![0; 2 * spatial] };
                let out_sp: Vec<usize> = x.shape[2..].iter().zip(&ks).map(|(d, k)| d + 2 * pad as usize + 1 - k).collect();
                match self.r.below(5) {
                    0 | 1 => {
                        let group = if c % 2 == 0 && self.r.chance(1, 3) { 2 } else if self.r.chance(1, 4) { c } else { 1 };
                        let m = group * *self.r.pick(&[1usize, 2, 3]);
                        let mut wshape = vec![m, c / group];
                        wshape.extend(&ks);
                        let w = self.add_const(s, Ty::F, &wshape);
                        let mut ins = vec![x.name.clone(), w.name];
                        if self.r.bool() {
                            ins.push(self.add_const(s, Ty::F, &[m]).name);
                        }
                        let refs: Vec<&str> = ins.iter().map(|x| x.as_str()).collect();
                        let mut shape = vec![x.shape[0], m];
                        shape.extend(&out_sp);
                        self.emit(s, "Conv", &refs, Ty::F, shape, vec![("group", Attr::Int(group as i64)), ("pads", Attr::Ints(pads)), ("kernel_shape", Attr::Ints(ks.iter().map(|k| *k as i64).collect()))]);
                    }
                    2 | 3 => {
                        if spatial != 2 {
                            return false;
                        }
                        let op = *self.r.pick(&["MaxPool", "AveragePool"]);
                        let mut shape = vec![x.shape[0], c];
                        shape.extend(&out_sp);
                        self.emit(s, op, &[&x.name], Ty::F, shape, vec![("kernel_shape", Attr::Ints(ks.iter().map(|k| *k as i64).collect())), ("pads", Attr::Ints(pads)), ("strides", Attr::Ints(vec![1; spatial]))]);
                    }
                    _ => {
                        let op = *self.r.pick(&["GlobalAveragePool", "GlobalMaxPool"]);
                        let mut shape = vec![x.shape[0], c];
                        shape.extend(std::iter::repeat(1).take(spatial));
                        self.emit(s, op, &[&x.name], Ty::F, shape, vec![]);
                    }
                }
                true
            }
            18 => {
                // Shape / Size of a runtime value (not folded when the value depends on an input)
                let Some(x) = self.pick_val(s, |_| true) else { return false };
                if self.r.bool() {
                    self.emit(s, "Shape", &[&x.name], Ty::I, vec![x.shape.len()], vec![]);
                } else {
                    self.emit(s, "Size", &[&x.name], Ty::I, vec![], vec![]);
                }
                true
            }
            19 | 20 => {
                // sequence operators (SequenceInsert can run in place); the sequence itself is not a tensor value
                let Some(a) = self.pick_val(s, |v| v.ty != Ty::B && !v.shape.is_empty()) else { return false };
                let b = if self.r.chance(1, 3) { a.clone() } else { self.pick_val(s, |v| v.ty == a.ty && v.shape == a.shape).unwrap_or(a.clone()) };
                let seq = self.fresh("sq");
                s.nodes.push(Node::new("SequenceConstruct", &[&a.name, &b.name], &[&seq]).named(&self.fresh("n")));
                let mut cur = seq;
                let mut len = 2usize;
                if self.r.bool() {
                    let c = if self.r.bool() { a.clone() } else { self.pick_val(s, |v| v.ty == a.ty && v.shape == a.shape).unwrap_or(a.clone()) };
                    let next = self.fresh("sq");
                    if self.r.bool() {
                        let pos = self.fresh("k");
                        s.inits.push(Tensor::i32(&pos, &[], &[self.r.usize_below(len + 1) as i32]));
                        s.nodes.push(Node::new("SequenceInsert", &[&cur, &c.name, &pos], &[&next]).named(&self.fresh("n")));
                    } else {
                        s.nodes.push(Node::new("SequenceInsert", &[&cur, &c.name], &[&next]).named(&self.fresh("n")));
                    }
                    cur = next;
                    len += 1;
                }
                if self.r.chance(1, 4) {
                    let next = self.fresh("sq");
                    let pos = self.fresh("k");
                    s.inits.push(Tensor::i32(&pos, &[], &[self.r.usize_below(len) as i32]));
                    s.nodes.push(Node::new("SequenceErase", &[&cur, &pos], &[&next]).named(&self.fresh("n")));
                    cur = next;
                    len -= 1;
                }
                match self.r.below(3) {
                    0 => {
                        let pos = self.fresh("k");
                        s.inits.push(Tensor::i32(&pos, &[], &[self.r.usize_below(len) as i32]));
                        self.emit(s, "SequenceAt", &[&cur, &pos], a.ty, a.shape.clone(), vec![]);
                    }
                    1 => {
                        let axis = self.r.usize_below(a.shape.len());
                        let mut shape = a.shape.clone();
                        shape[axis] *= len;
                        self.emit(s, "ConcatFromSequence", &[&cur], a.ty, shape, vec![("axis", Attr::Int(axis as i64))]);
                    }
                    _ => {
                        self.emit(s, "SequenceLength", &[&cur], Ty::I, vec![], vec![]);
                    }
                }
                true
            }
            21 => {
                // Where with three distinct operands and broadcasting
                let Some(c) = self.pick_val(s, |v| v.ty == Ty::B) else { return false };
                let Some(x) = self.pick_val(s, |v| v.ty != Ty::B && broadcast(&c.shape, &v.shape).is_some()) else { return false };
                let sh = broadcast(&c.shape, &x.shape).unwrap();
                let y = self.pick_val(s, |v| v.ty == x.ty && broadcast(&sh, &v.shape).is_some()).unwrap_or(x.clone());
                let shape = broadcast(&sh, &y.shape).unwrap_or(sh);
                self.emit(s, "Where", &[&c.name, &x.name, &y.name], x.ty, shape, vec![]);
                true
            }
            23 => {
                // Einsum with one and with several contracted labels
                if io {
                    return false;
                }
                let Some(x) = self.pick_val(s, |v| v.ty == Ty::F && (v.shape.len() == 2 || v.shape.len() == 3) && v.numel() > 0 && v.numel() <= 4096) else { return false };
                if x.shape.len() == 3 {
                    let (i, j, k) = (x.shape[0], x.shape[1], x.shape[2]);
                    match self.r.below(3) {
                        0 => {
                            self.emit(s, "Einsum", &[&x.name], Ty::F, vec![i], vec![("equation", Attr::Str("ijk->i".into()))]);
                        }
                        1 => {
                            let l = *self.r.pick(&[1usize, 2, 3]);
                            let w = self.add_const(s, Ty::F, &[j, k, l]);
                            self.emit(s, "Einsum", &[&x.name, &w.name], Ty::F, vec![i, l], vec![("equation", Attr::Str("ijk,jkl->il".into()))]);
                        }
                        _ => {
                            let l = *self.r.pick(&[1usize, 2, 3]);
                            let w = self.add_const(s, Ty::F, &[i, k, l]);
                            self.emit(s, "Einsum", &[&x.name, &w.name], Ty::F, vec![i, j, l], vec![("equation", Attr::Str("bij,bjk->bik".into()))]);
                        }
                    }
                } else {
                    let (i, j) = (x.shape[0], x.shape[1]);
                    if self.r.bool() {
                        let k = *self.r.pick(&[1usize, 2, 3]);
                        let w = self.add_const(s, Ty::F, &[j, k]);
                        self.emit(s, "Einsum", &[&x.name, &w.name], Ty::F, vec![i, k], vec![("equation", Attr::Str("ij,jk->ik".into()))]);
                    } else {
                        let w = self.add_const(s, Ty::F, &[i, j]);
                        self.emit(s, "Einsum", &[&x.name, &w.name], Ty::F, vec![], vec![("equation", Attr::Str("ij,ij->".into()))]);
                    }
                }
                true
            }
            22 => {
                // DepthToSpace / SpaceToDepth-free: Transpose-free layout change on 4-d input
                let Some(x) = self.pick_val(s, |v| v.shape.len() == 4 && v.shape[1] % 4 == 0 && v.numel() > 0 && v.ty == Ty::F) else { return false };
                let shape = vec![x.shape[0], x.shape[1] / 4, x.shape[2] * 2, x.shape[3] * 2];
                let mode = *self.r.pick(&["DCR", "CRD"]);
                self.emit(s, "DepthToSpace", &[&x.name], x.ty, shape, vec![("blocksize", Attr::Int(2)), ("mode", Attr::Str(mode.into()))]);
                true
            }
            _ => {
                // Identity chains and Dropout-free no-ops: a value that is only renamed, then consumed twice
                let Some(x) = self.pick_val(s, |v| v.ty != Ty::B) else { return false };
                let y = self.emit(s, "Identity", &[&x.name], x.ty, x.shape.clone(), vec![]);
                let op = if x.ty == Ty::F { *self.r.pick(&["Add", "Mul", "Sub"]) } else { *self.r.pick(&["Add", "Sub"]) };
                self.emit(s, op, &[&y.name, &x.name], x.ty, x.shape.clone(), vec![]);
                true
            }
        }
    }

    /// `Slice(Shape(x), a, b)`: a value the optimizer replaces by a constant when the sliced dimensions
    /// of `x` are static, although `Shape(x)` as a whole is not. Emitted right before control-flow operators
    /// so that branches and bodies are likely to capture it.
    pub fn add_shape_slice(&mut self, s: &mut Scope) -> bool {
        let x = match self.pick_val(s, |v| v.shape.len() >= 2 && v.name.starts_with("in")) {
            Some(x) => x,
            None => match self.pick_val(s, |v| v.shape.len() >= 2) {
                Some(x) => x,
                None => return false,
            },
        };
        let rank = x.shape.len();
        let sh = self.emit(s, "Shape", &[&x.name], Ty::I, vec![rank], vec![]);
        let a = self.r.usize_below(rank);
        let b = self.r.urange(a + 1, rank);
        let (na, nb) = (self.scalar_i64(s, &[a as i64]), self.scalar_i64(s, &[b as i64]));
        self.emit(s, "Slice", &[&sh.name, &na, &nb], Ty::I, vec![b - a], vec![]);
        true
    }

    /// A temporary with 254..=300 uses: either that many separate consumers (in-place capable `Add(x, k)`
    /// or `Sub(k, x)`, which never runs in place on `x`), or one variadic operator that names it that often.
    pub fn add_fan_out(&mut self, s: &mut Scope) -> bool {
        let Some(x) = self.pick_val(s, |v| v.ty != Ty::B && v.numel() > 0 && v.numel() <= 16 && v.name.starts_with('v')) else { return false };
        let n = *self.r.pick(&[254usize, 255, 256, 257, 300]);
        if self.r.chance(1, 3) {
            let names: Vec<&str> = std::iter::repeat(x.name.as_str()).take(n).collect();
            let op = if x.ty == Ty::F { *self.r.pick(&["Sum", "Max", "Mean"]) } else { "Concat" };
            if op == "Concat" {
                if x.shape.is_empty() {
                    return false;
                }
                let mut shape = x.shape.clone();
                shape[0] *= n;
                self.emit(s, "Concat", &names, x.ty, shape, vec![("axis", Attr::Int(0))]);
            } else {
                self.emit(s, op, &names, x.ty, x.shape.clone(), vec![]);
            }
            // and one more use afterwards
            self.emit(s, "Neg", &[&x.name], x.ty, x.shape.clone(), vec![]);
            return true;
        }
        let k = self.add_const(s, x.ty, &[]);
        let sub = self.r.bool();
        let mut outs: Vec<Val> = Vec::new();
        for _ in 0..n {
            let o = if sub { self.emit(s, "Sub", &[&k.name, &x.name], x.ty, x.shape.clone(), vec![]) } else { self.emit(s, "Add", &[&x.name, &k.name], x.ty, x.shape.clone(), vec![]) };
            outs.push(o);
        }
        // fold the consumers pairwise into one value so that all of them are needed
        let mut acc = outs[0].clone();
        for o in &outs[1..] {
            acc = self.emit(s, "Max", &[&acc.name, &o.name], x.ty, x.shape.clone(), vec![]);
        }
        // the intermediate values are not interesting as requested outputs
        let keep = acc.name.clone();
        s.own.retain(|v| !outs.iter().any(|o| o.name == v.name) || v.name == keep);
        true
    }

    fn body_scope(&self, parent: &Scope) -> Scope {
        Scope { nodes: vec![], inits: vec![], vals: parent.vals.clone(), own: vec![], depth: parent.depth + 1 }
    }

    /// Build a branch graph producing values of the given types/shapes.
    fn branch(&mut self, parent: &Scope, want: &[(Ty, Vec<usize>)]) -> Option<Graph> {
        let mut b = self.body_scope(parent);
        let nops = self.r.urange(1, 4);
        for _ in 0..nops {
            self.add_op(&mut b, true);
        }
        let mut outputs = Vec::new();
        for (ty, shape) in want {
            // a value of the right type and shape, produced here if possible
            let v = b.own.iter().rev().find(|v| v.ty == *ty && v.shape == *shape).cloned().or_else(|| b.vals.iter().rev().find(|v| v.ty == *ty && v.shape == *shape).cloned())?;
            // branch outputs must be produced by a node of the branch
            let out = self.fresh("bo");
            b.nodes.push(Node::new("Identity", &[&v.name], &[&out]).named(&self.fresh("n")));
            outputs.push(ValueInfo::untyped(&out));
        }
        Some(Graph { name: self.fresh("g"), nodes: b.nodes, initializers: b.inits, inputs: vec![], outputs, value_info: vec![] })
    }

    fn add_if(&mut self, s: &mut Scope) -> bool {
        // the condition must come from a graph input, or constant propagation would fold the If
        let cond = match s.vals.iter().find(|v| v.ty == Ty::B && v.shape.is_empty() && v.name.starts_with("in")).cloned() {
            Some(c) => c,
            None => {
                if s.depth > 0 {
                    return false;
                }
                let v = self.r.bool() as i32;
                self.add_input(s, Ty::B, &[], Some(v))
            }
        };
        let nout = self.r.urange(1, 2);
        let mut want = Vec::new();
        for _ in 0..nout {
            let Some(v) = self.pick_val(s, |v| v.ty != Ty::B) else { return false };
            want.push((v.ty, v.shape.clone()));
        }
        let Some(then_g) = self.branch(s, &want) else { return false };
        let Some(else_g) = self.branch(s, &want) else { return false };
        let outs: Vec<String> = (0..nout).map(|_| self.fresh("v")).collect();
        let refs: Vec<&str> = outs.iter().map(|o| o.as_str()).collect();
        let n = Node::new("If", &[&cond.name], &refs).named(&self.fresh("n")).attr("then_branch", Attr::Graph(then_g)).attr("else_branch", Attr::Graph(else_g));
        s.nodes.push(n);
        for (o, (ty, shape)) in outs.into_iter().zip(want) {
            let v = Val { name: o, ty, shape };
            s.vals.push(v.clone());
            s.own.push(v);
        }
        true
    }

    fn add_loop(&mut self, s: &mut Scope) -> bool {
        let trip = match s.vals.iter().find(|v| v.ty == Ty::I && v.shape.is_empty() && v.name.starts_with("in")).cloned() {
            Some(t) => t,
            None => {
                if s.depth > 0 {
                    return false;
                }
                let n = *self.r.pick(&[0i32, 1, 2, 3]);
                // trip count is INT64 in ONNX; rten feeds it as an i32 tensor
                let name = self.fresh("in");
                let v = Val { name, ty: Ty::I, shape: vec![] };
                self.inputs.push(InputSpec { val: v.clone(), seed: 0, scalar: Some(n) });
                s.vals.push(v.clone());
                v
            }
        };
        let ncarried = self.r.urange(0, 2);
        let mut carried = Vec::new();
        for _ in 0..ncarried {
            let Some(v) = self.pick_val(s, |v| v.ty != Ty::B) else { return false };
            carried.push(v);
        }
        // body: inputs (iter, cond, carried...) outputs (cond, carried..., scans...)
        let mut b = self.body_scope(s);
        let iter = Val { name: self.fresh("it"), ty: Ty::I, shape: vec![] };
        let cond_in = Val { name: self.fresh("ci"), ty: Ty::B, shape: vec![] };
        let mut body_inputs = vec![ValueInfo::new(&iter.name, dtype::INT64, &[]), ValueInfo::new(&cond_in.name, dtype::BOOL, &[])];
        b.vals.push(iter.clone());
        let mut carried_in = Vec::new();
        for c in &carried {
            let v = Val { name: self.fresh("ca"), ty: c.ty, shape: c.shape.clone() };
            body_inputs.push(ValueInfo::untyped(&v.name));
            b.vals.push(v.clone());
            carried_in.push(v);
        }
        let nops = self.r.urange(1, 4);
        for _ in 0..nops {
            self.add_op(&mut b, true);
        }
        let mut outputs = Vec::new();
        let co = self.fresh("bo");
        b.nodes.push(Node::new("Identity", &[&cond_in.name], &[&co]).named(&self.fresh("n")));
        outputs.push(ValueInfo::untyped(&co));
        for cin in &carried_in {
            // next value of the carried dependency: something of the same type/shape, ideally computed from it
            let v = b.own.iter().rev().find(|v| v.ty == cin.ty && v.shape == cin.shape).cloned().unwrap_or(cin.clone());
            let out = self.fresh("bo");
            b.nodes.push(Node::new("Identity", &[&v.name], &[&out]).named(&self.fresh("n")));
            outputs.push(ValueInfo::untyped(&out));
        }
        let nscan = if self.r.chance(1, 2) { 1 } else { 0 };
        let mut scans = Vec::new();
        for _ in 0..nscan {
            let Some(v) = b.own.iter().rev().find(|v| v.ty != Ty::B && v.shape.len() <= 3).cloned() else { break };
            let out = self.fresh("bo");
            b.nodes.push(Node::new("Identity", &[&v.name], &[&out]).named(&self.fresh("n")));
            outputs.push(ValueInfo::untyped(&out));
            scans.push(v);
        }
        let body = Graph { name: self.fresh("g"), nodes: b.nodes, initializers: b.inits, inputs: body_inputs, outputs, value_info: vec![] };
        let mut ins = vec![trip.name.clone(), String::new()];
        ins.extend(carried.iter().map(|c| c.name.clone()));
        let mut outs: Vec<String> = Vec::new();
        let mut out_vals = Vec::new();
        for c in &carried {
            let o = self.fresh("v");
            out_vals.push(Val { name: o.clone(), ty: c.ty, shape: c.shape.clone() });
            outs.push(o);
        }
        let trip_n = self.inputs.iter().find(|i| i.val.name == trip.name).and_then(|i| i.scalar).unwrap_or(0).max(0) as usize;
        for sc in &scans {
            let o = self.fresh("v");
            let mut shape = vec![trip_n];
            shape.extend(&sc.shape);
            // with zero iterations the scan output does not exist in rten: never use it downstream
            if trip_n > 0 {
                out_vals.push(Val { name: o.clone(), ty: sc.ty, shape });
            }
            outs.push(o);
        }
        if outs.is_empty() {
            return false;
        }
        let irefs: Vec<&str> = ins.iter().map(|x| x.as_str()).collect();
        let orefs: Vec<&str> = outs.iter().map(|x| x.as_str()).collect();
        s.nodes.push(Node::new("Loop", &irefs, &orefs).named(&self.fresh("n")).attr("body", Attr::Graph(body)));
        for v in out_vals {
            s.vals.push(v.clone());
            s.own.push(v);
        }
        true
    }
}

fn has_cf(g: &Graph) -> bool {
    g.nodes.iter().any(|n| n.op_type == "If" || n.op_type == "Loop")
}

/// Generate a program. `control_flow`: force at least one If/Loop.
pub fn generate(r: &mut Rng, control_flow: bool) -> Program {
    generate_with(r, control_flow, false)
}

pub fn generate_with(r: &mut Rng, control_flow: bool, int_only: bool) -> Program {
    let mut g = Gen::new(r);
    g.int_only = int_only;
    let mut s = Scope { nodes: vec![], inits: vec![], vals: vec![], own: vec![], depth: 0 };
    let nin = g.r.urange(1, 3);
    for _ in 0..nin {
        let ty = if !int_only && g.r.chance(3, 4) { Ty::F } else { Ty::I };
        let shape = g.rand_shape();
        g.add_input(&mut s, ty, &shape, None);
    }
    // a couple of constants that operators can consume (in place) or that are requested directly
    for _ in 0..g.r.urange(0, 2) {
        let ty = if !int_only && g.r.chance(3, 4) { Ty::F } else { Ty::I };
        let shape = g.rand_shape();
        g.add_const(&mut s, ty, &shape);
    }
    let nops = g.r.urange(2, 12);
    let mut cf_done = false;
    for i in 0..nops {
        if control_flow && !cf_done && (i == nops / 2 || i + 1 == nops) {
            if g.r.chance(1, 5) {
                g.add_shape_slice(&mut s);
            }
            cf_done = if g.r.bool() { g.add_if(&mut s) } else { g.add_loop(&mut s) };
            continue;
        }
        for _ in 0..4 {
            if g.add_op(&mut s, control_flow || i % 5 == 4) {
                break;
            }
        }
    }
    // Hazard (rare, it makes the program large): a value with hundreds of uses, so that use counts
    // pass every width the executor might store them in (u8 saturates at 255).
    if g.r.chance(1, 120) {
        g.add_fan_out(&mut s);
    }
    let input_specs = g.inputs.clone();
    let graph_inputs: Vec<ValueInfo> = input_specs
        .iter()
        .map(|i| {
            let t = match i.val.ty {
                Ty::F => dtype::FLOAT,
                Ty::I => if i.scalar.is_some() { dtype::INT64 } else { dtype::INT32 },
                Ty::B => dtype::BOOL,
            };
            let mut vi = ValueInfo::new(&i.val.name, t, &i.val.shape.iter().map(|d| *d as i64).collect::<Vec<_>>());
            // declare some dimensions symbolic: the fed shapes are the same, but load-time shape inference
            // and the optimizer then know only part of the shape
            if i.val.shape.len() >= 2 && g.r.chance(1, 2) {
                if let Some(dims) = vi.shape.as_mut() {
                    let k = g.r.usize_below(dims.len());
                    for (di, d) in dims.iter_mut().enumerate() {
                        if di == k || g.r.chance(1, 4) {
                            *d = Dim::Sym(format!("{}_d{di}", i.val.name));
                        }
                    }
                    // keep at least one dimension static
                    if dims.iter().all(|d| matches!(d, Dim::Sym(_))) {
                        let j = (k + 1) % dims.len();
                        dims[j] = Dim::Fixed(i.val.shape[j] as i64);
                    }
                }
            }
            vi
        })
        .collect();
    // Requested outputs are chosen here and *declared* as graph outputs: the
    // optimizer may remove any value that is not a declared output. 1-3 produced
    // values in permuted order (so outputs are often also intermediate inputs),
    // plus sometimes a constant or an input requested directly.
    let mut candidates: Vec<Val> = Vec::new();
    if !s.own.is_empty() {
        let k = g.r.urange(1, 3.min(s.own.len()));
        let mut idx: Vec<usize> = (0..s.own.len()).collect();
        g.r.shuffle(&mut idx);
        if g.r.chance(3, 4) {
            let last = s.own.len() - 1;
            idx.retain(|i| *i != last);
            idx.insert(0, last);
        }
        for i in idx.into_iter().take(k) {
            candidates.push(s.own[i].clone());
        }
    }
    let outputs: Vec<ValueInfo> = candidates.iter().map(|v| ValueInfo::untyped(&v.name)).collect();
    if g.r.chance(1, 4) {
        let direct: Vec<Val> = s.vals.iter().filter(|v| (v.name.starts_with('k') || v.name.starts_with("in")) && v.ty != Ty::B && !v.shape.is_empty()).cloned().collect();
        if !direct.is_empty() {
            let d = direct[g.r.usize_below(direct.len())].clone();
            candidates.push(d);
        }
    }
    let graph = Graph { name: "main".into(), nodes: s.nodes, initializers: s.inits, inputs: graph_inputs, outputs, value_info: vec![] };
    let has_control_flow = has_cf(&graph);
    let model = Model::new(graph);
    let inputs = g.inputs.clone();
    Program { model, inputs, candidates, has_control_flow }
}
