//! A small corpus of valid ONNX models covering every field kind the decoder
//! and the loader know: raw / typed / packed / unpacked / external tensor data,
//! all attribute kinds, nested graphs, value_info with fixed and symbolic dims,
//! unknown fields and groups, metadata.

use crate::{dtype, Attr, Dim, Graph, Model, Node, Tensor, TensorData, ValueInfo};

fn vi(name: &str, t: i32, shape: &[i64]) -> ValueInfo {
    ValueInfo::new(name, t, shape)
}

pub fn mlp() -> Model {
    let w: Vec<f32> = (0..12).map(|i| (i as f32) * 0.25 - 1.0).collect();
    let g = Graph {
        name: "mlp".into(),
        nodes: vec![
            Node::new("MatMul", &["x", "W"], &["h"]).named("mm"),
            Node::new("Add", &["h", "b"], &["hb"]).named("add"),
            Node::new("Relu", &["hb"], &["y"]).named("relu"),
        ],
        initializers: vec![
            Tensor::f32("W", &[4, 3], &w),
            Tensor { name: "b".into(), dims: vec![3], dtype: dtype::FLOAT, data: TensorData::F32(vec![0.5, -0.5, 0.25]) },
        ],
        inputs: vec![vi("x", dtype::FLOAT, &[1, 4])],
        outputs: vec![vi("y", dtype::FLOAT, &[1, 3])],
        value_info: vec![vi("h", dtype::FLOAT, &[1, 3])],
    };
    Model::new(g)
}

pub fn ints() -> Model {
    let g = Graph {
        name: "ints".into(),
        nodes: vec![
            Node::new("Reshape", &["x", "shape"], &["r"]),
            Node::new("Gather", &["r", "idx"], &["g"]).attr("axis", Attr::Int(1)),
            Node::new("Add", &["g", "k32"], &["a"]),
            Node::new("Mul", &["a", "k64"], &["y"]),
        ],
        initializers: vec![
            Tensor { name: "shape".into(), dims: vec![2], dtype: dtype::INT64, data: TensorData::I64(vec![2, 3]) },
            Tensor { name: "idx".into(), dims: vec![2], dtype: dtype::INT64, data: TensorData::I64Unpacked(vec![2, 0]) },
            Tensor { name: "k32".into(), dims: vec![2], dtype: dtype::INT32, data: TensorData::I32(vec![7, -3]) },
            Tensor::i64("k64", &[1], &[3]),
        ],
        inputs: vec![vi("x", dtype::INT32, &[6])],
        outputs: vec![vi("y", dtype::INT32, &[2, 2])],
        value_info: vec![],
    };
    Model::new(g)
}

pub fn attrs() -> Model {
    let w: Vec<f32> = (0..18).map(|i| ((i * 7) % 5) as f32 - 2.0).collect();
    let g = Graph {
        name: "attrs".into(),
        nodes: vec![
            Node::new("Conv", &["x", "cw"], &["c"])
                .attr("kernel_shape", Attr::Ints(vec![3, 3]))
                .attr("pads", Attr::Ints(vec![1, 1, 1, 1]))
                .attr("strides", Attr::Ints(vec![1, 1]))
                .attr("auto_pad", Attr::Str("NOTSET".into())),
            Node::new("LeakyRelu", &["c"], &["l"]).attr("alpha", Attr::Float(0.1)),
            Node::new("Constant", &[], &["cval"]).attr("value", Attr::Tensor(Tensor::f32("", &[1], &[2.0]))),
            Node::new("Constant", &[], &["cfl"]).attr("value_floats", Attr::Floats(vec![1.0, 2.0, 3.0, 4.0])),
            Node::new("Constant", &[], &["cin"]).attr("value_ints", Attr::Ints(vec![1, 2, 4, 4])),
            Node::new("Mul", &["l", "cval"], &["m"]),
            Node::new("Add", &["m", "cfl"], &["m2"]),
            Node::new("Reshape", &["m2", "cin"], &["m3"]),
            Node::new("Softmax", &["m3"], &["y"]).attr("axis", Attr::Int(-1)),
        ],
        initializers: vec![Tensor::f32("cw", &[2, 1, 3, 3], &w)],
        inputs: vec![vi("x", dtype::FLOAT, &[1, 1, 4, 4])],
        outputs: vec![vi("y", dtype::FLOAT, &[1, 2, 4, 4])],
        value_info: vec![ValueInfo { name: "c".into(), elem_type: Some(dtype::FLOAT), shape: Some(vec![Dim::Sym("batch".into()), Dim::Fixed(2), Dim::Unknown, Dim::Fixed(4)]) }],
    };
    let mut m = Model::new(g);
    m.metadata = vec![("onnx_hash".into(), "abc123".into()), ("description".into(), "attr coverage".into())];
    m
}

/// A node with more attributes than fit in a 32-bit "seen" mask: the attribute the operator
/// reads sits at index 35, behind attributes the reader ignores.
pub fn manyattrs() -> Model {
    let mut sm = Node::new("Softmax", &["x"], &["s"]);
    for i in 0..35 {
        sm = sm.attr(&format!("junk_{i}"), Attr::Int(i as i64));
    }
    sm = sm.attr("axis", Attr::Int(-1));
    let mut lr = Node::new("LeakyRelu", &["s"], &["y"]);
    for i in 0..33 {
        lr = lr.attr(&format!("pad_{i}"), Attr::Float(i as f32));
    }
    lr = lr.attr("alpha", Attr::Float(0.25));
    let g = Graph { name: "manyattrs".into(), nodes: vec![sm, lr], initializers: vec![], inputs: vec![vi("x", dtype::FLOAT, &[2, 3])], outputs: vec![vi("y", dtype::FLOAT, &[2, 3])], value_info: vec![] };
    Model::new(g)
}

pub fn ctrl() -> Model {
    let then_g = Graph {
        name: "then".into(),
        nodes: vec![Node::new("Add", &["x", "one"], &["t_out"])],
        initializers: vec![Tensor::i32("one", &[1], &[1])],
        inputs: vec![],
        outputs: vec![ValueInfo::untyped("t_out")],
        value_info: vec![],
    };
    let else_g = Graph {
        name: "else".into(),
        nodes: vec![Node::new("Mul", &["x", "two"], &["e_out"])],
        initializers: vec![Tensor::i32("two", &[1], &[2])],
        inputs: vec![],
        outputs: vec![ValueInfo::untyped("e_out")],
        value_info: vec![],
    };
    let body = Graph {
        name: "body".into(),
        nodes: vec![
            Node::new("Add", &["acc_in", "x"], &["acc_out"]),
            Node::new("Identity", &["cond_in"], &["cond_out"]),
            Node::new("Identity", &["acc_out"], &["scan"]),
        ],
        initializers: vec![],
        inputs: vec![vi("iter", dtype::INT64, &[]), vi("cond_in", dtype::BOOL, &[]), ValueInfo::untyped("acc_in")],
        outputs: vec![ValueInfo::untyped("cond_out"), ValueInfo::untyped("acc_out"), ValueInfo::untyped("scan")],
        value_info: vec![],
    };
    let g = Graph {
        name: "ctrl".into(),
        nodes: vec![
            Node::new("If", &["c"], &["branch"]).attr("then_branch", Attr::Graph(then_g)).attr("else_branch", Attr::Graph(else_g)),
            Node::new("Loop", &["n", "", "branch"], &["acc", "scans"]).attr("body", Attr::Graph(body)),
            Node::new("Sub", &["acc", "x"], &["y"]),
        ],
        initializers: vec![],
        inputs: vec![vi("c", dtype::BOOL, &[]), vi("n", dtype::INT64, &[]), vi("x", dtype::INT32, &[3])],
        outputs: vec![vi("y", dtype::INT32, &[3]), ValueInfo::untyped("scans")],
        value_info: vec![],
    };
    Model::new(g)
}

pub fn dtypes() -> Model {
    let mut dbl = Vec::new();
    for v in [1.5f64, -2.25, 1e10] {
        dbl.extend(v.to_le_bytes());
    }
    let g = Graph {
        name: "dtypes".into(),
        nodes: vec![
            Node::new("Where", &["kb", "kd", "x"], &["w"]),
            Node::new("Cast", &["ku8"], &["cu"]).attr("to", Attr::Int(dtype::FLOAT as i64)),
            Node::new("Cast", &["ki8"], &["ci"]).attr("to", Attr::Int(dtype::FLOAT as i64)),
            Node::new("Add", &["w", "cu"], &["a1"]),
            Node::new("Add", &["a1", "ci"], &["a2"]),
            Node::new("Add", &["a2", "kd2"], &["a3"]),
            Node::new("Add", &["a3", "kh"], &["y"]),
        ],
        initializers: vec![
            Tensor::bool("kb", &[3], &[true, false, true]),
            Tensor { name: "kd".into(), dims: vec![3], dtype: dtype::DOUBLE, data: TensorData::Raw(dbl) },
            Tensor { name: "kd2".into(), dims: vec![3], dtype: dtype::DOUBLE, data: TensorData::F64(vec![0.5, 0.25, 0.125]) },
            Tensor { name: "ku8".into(), dims: vec![3], dtype: dtype::UINT8, data: TensorData::Raw(vec![1, 200, 255]) },
            Tensor { name: "ki8".into(), dims: vec![3], dtype: dtype::INT8, data: TensorData::I32(vec![-1, 100, -128]) },
            Tensor { name: "kh".into(), dims: vec![3], dtype: dtype::FLOAT16, data: TensorData::Raw(vec![0x00, 0x3c, 0x00, 0xc0, 0x00, 0x00]) },
        ],
        inputs: vec![vi("x", dtype::FLOAT, &[3])],
        outputs: vec![vi("y", dtype::FLOAT, &[3])],
        value_info: vec![],
    };
    Model::new(g)
}

pub fn meta() -> Model {
    let g = Graph {
        name: "meta".into(),
        nodes: vec![
            Node::new("Transpose", &["x"], &["t"]).attr("perm", Attr::Ints(vec![1, 0])),
            Node::new("Concat", &["t", "t"], &["cc"]).attr("axis", Attr::Int(0)),
            Node::new("ReduceSum", &["cc", "axes"], &["y"]).attr("keepdims", Attr::Int(0)),
        ],
        initializers: vec![Tensor::i64("axes", &[1], &[1]), Tensor { name: "scalar".into(), dims: vec![], dtype: dtype::FLOAT, data: TensorData::F32Unpacked(vec![3.5]) }],
        inputs: vec![ValueInfo { name: "x".into(), elem_type: Some(dtype::FLOAT), shape: Some(vec![Dim::Sym("rows".into()), Dim::Fixed(3)]) }],
        outputs: vec![ValueInfo { name: "y".into(), elem_type: Some(dtype::FLOAT), shape: Some(vec![Dim::Unknown]) }],
        value_info: vec![vi("t", dtype::FLOAT, &[3, 2])],
    };
    let mut m = Model::new(g);
    m.unknown_fields = true;
    m.extra_opsets = vec![("com.microsoft".into(), 1), ("ai.onnx.ml".into(), 3)];
    m.metadata = vec![("k".into(), "v".into())];
    m
}

pub fn external() -> Model {
    let g = Graph {
        name: "external".into(),
        nodes: vec![Node::new("Add", &["x", "ext"], &["y"])],
        initializers: vec![Tensor {
            name: "ext".into(),
            dims: vec![4],
            dtype: dtype::FLOAT,
            data: TensorData::External { location: "model.onnx.data".into(), offset: Some("0".into()), length: Some("16".into()), extra: vec![("checksum".into(), "00".into())] },
        }],
        inputs: vec![vi("x", dtype::FLOAT, &[4])],
        outputs: vec![vi("y", dtype::FLOAT, &[4])],
        value_info: vec![],
    };
    Model::new(g)
}

/// Larger raw payloads so that buffered readers refill in the middle of fields.
pub fn wide() -> Model {
    let w: Vec<f32> = (0..(48 * 48)).map(|i| ((i * 31) % 17) as f32 * 0.125 - 1.0).collect();
    let b: Vec<f32> = (0..48).map(|i| i as f32 * 0.01).collect();
    let g = Graph {
        name: "wide".into(),
        nodes: vec![
            Node::new("Gemm", &["x", "W", "b"], &["g"]).attr("transB", Attr::Int(1)).attr("alpha", Attr::Float(1.0)),
            Node::new("Sigmoid", &["g"], &["y"]),
        ],
        initializers: vec![Tensor::f32("W", &[48, 48], &w), Tensor::f32("b", &[48], &b)],
        inputs: vec![vi("x", dtype::FLOAT, &[2, 48])],
        outputs: vec![vi("y", dtype::FLOAT, &[2, 48])],
        value_info: vec![],
    };
    Model::new(g)
}

pub fn all() -> Vec<(&'static str, Model)> {
    vec![
        ("mlp", mlp()),
        ("ints", ints()),
        ("attrs", attrs()),
        ("ctrl", ctrl()),
        ("dtypes", dtypes()),
        ("meta", meta()),
        ("external", external()),
        ("wide", wide()),
        ("manyattrs", manyattrs()),
    ]
}
