//! A small ONNX (protobuf) encoder owned by the harness. It records where
//! every tag and length varint lives so that simulated storage faults can lie
//! about lengths ("structure-aware" faults).

use serde::{Deserialize, Serialize};

#[derive(Clone, Copy, Debug, PartialEq, Eq, Serialize, Deserialize)]
pub enum MarkKind {
    Tag,
    Len,
    Varint,
}

#[derive(Clone, Debug, Serialize, Deserialize)]
pub struct Mark {
    pub pos: usize,
    pub len: usize,
    pub kind: MarkKind,
    pub depth: u32,
    /// For `Len`: payload length in bytes.
    pub value: u64,
}

pub fn varint(mut v: u64) -> Vec<u8> {
    let mut out = Vec::new();
    loop {
        let b = (v & 0x7f) as u8;
        v >>= 7;
        if v == 0 {
            out.push(b);
            return out;
        }
        out.push(b | 0x80);
    }
}

/// Protobuf message writer with position marks.
#[derive(Clone, Debug, Default)]
pub struct Pb {
    pub buf: Vec<u8>,
    pub marks: Vec<Mark>,
}

impl Pb {
    pub fn new() -> Pb {
        Pb::default()
    }
    fn tag(&mut self, field: u64, wire: u64) {
        let t = varint((field << 3) | wire);
        self.marks.push(Mark { pos: self.buf.len(), len: t.len(), kind: MarkKind::Tag, depth: 0, value: (field << 3) | wire });
        self.buf.extend(t);
    }
    pub fn varint_field(&mut self, field: u64, v: u64) {
        self.tag(field, 0);
        let b = varint(v);
        self.marks.push(Mark { pos: self.buf.len(), len: b.len(), kind: MarkKind::Varint, depth: 0, value: v });
        self.buf.extend(b);
    }
    pub fn int64_field(&mut self, field: u64, v: i64) {
        self.varint_field(field, v as u64);
    }
    pub fn fixed32_field(&mut self, field: u64, v: [u8; 4]) {
        self.tag(field, 5);
        self.buf.extend(v);
    }
    pub fn fixed64_field(&mut self, field: u64, v: [u8; 8]) {
        self.tag(field, 1);
        self.buf.extend(v);
    }
    pub fn float_field(&mut self, field: u64, v: f32) {
        self.fixed32_field(field, v.to_le_bytes());
    }
    pub fn bytes_field(&mut self, field: u64, bytes: &[u8]) {
        self.tag(field, 2);
        let l = varint(bytes.len() as u64);
        self.marks.push(Mark { pos: self.buf.len(), len: l.len(), kind: MarkKind::Len, depth: 0, value: bytes.len() as u64 });
        self.buf.extend(l);
        self.buf.extend_from_slice(bytes);
    }
    pub fn string_field(&mut self, field: u64, s: &str) {
        self.bytes_field(field, s.as_bytes());
    }
    pub fn message_field(&mut self, field: u64, child: &Pb) {
        self.tag(field, 2);
        let l = varint(child.buf.len() as u64);
        self.marks.push(Mark { pos: self.buf.len(), len: l.len(), kind: MarkKind::Len, depth: 0, value: child.buf.len() as u64 });
        self.buf.extend(l);
        let off = self.buf.len();
        for m in &child.marks {
            self.marks.push(Mark { pos: m.pos + off, len: m.len, kind: m.kind, depth: m.depth + 1, value: m.value });
        }
        self.buf.extend_from_slice(&child.buf);
    }
    pub fn packed_varints(&mut self, field: u64, vals: &[u64]) {
        let mut p = Vec::new();
        for v in vals {
            p.extend(varint(*v));
        }
        self.bytes_field(field, &p);
    }
    pub fn group_markers(&mut self, field: u64) {
        self.tag(field, 3);
        self.tag(field, 4);
    }
}

pub mod corpus;

// ------------------------------------------------------------------ ONNX

pub mod dtype {
    pub const FLOAT: i32 = 1;
    pub const UINT8: i32 = 2;
    pub const INT8: i32 = 3;
    pub const INT32: i32 = 6;
    pub const INT64: i32 = 7;
    pub const STRING: i32 = 8;
    pub const BOOL: i32 = 9;
    pub const FLOAT16: i32 = 10;
    pub const DOUBLE: i32 = 11;
}

#[derive(Clone, Debug, Serialize, Deserialize, PartialEq)]
pub enum TensorData {
    Raw(Vec<u8>),
    F32(Vec<f32>),
    I32(Vec<i32>),
    I64(Vec<i64>),
    F64(Vec<f64>),
    /// Unpacked repeated scalars (one tag per element).
    I64Unpacked(Vec<i64>),
    F32Unpacked(Vec<f32>),
    External { location: String, offset: Option<String>, length: Option<String>, extra: Vec<(String, String)> },
    None,
}

#[derive(Clone, Debug, Serialize, Deserialize, PartialEq)]
pub struct Tensor {
    pub name: String,
    pub dims: Vec<i64>,
    pub dtype: i32,
    pub data: TensorData,
}

impl Tensor {
    pub fn f32(name: &str, dims: &[i64], vals: &[f32]) -> Tensor {
        let mut raw = Vec::with_capacity(vals.len() * 4);
        for v in vals {
            raw.extend(v.to_le_bytes());
        }
        Tensor { name: name.into(), dims: dims.to_vec(), dtype: dtype::FLOAT, data: TensorData::Raw(raw) }
    }
    pub fn i32(name: &str, dims: &[i64], vals: &[i32]) -> Tensor {
        let mut raw = Vec::with_capacity(vals.len() * 4);
        for v in vals {
            raw.extend(v.to_le_bytes());
        }
        Tensor { name: name.into(), dims: dims.to_vec(), dtype: dtype::INT32, data: TensorData::Raw(raw) }
    }
    pub fn i64(name: &str, dims: &[i64], vals: &[i64]) -> Tensor {
        let mut raw = Vec::with_capacity(vals.len() * 8);
        for v in vals {
            raw.extend(v.to_le_bytes());
        }
        Tensor { name: name.into(), dims: dims.to_vec(), dtype: dtype::INT64, data: TensorData::Raw(raw) }
    }
    pub fn bool(name: &str, dims: &[i64], vals: &[bool]) -> Tensor {
        Tensor { name: name.into(), dims: dims.to_vec(), dtype: dtype::BOOL, data: TensorData::Raw(vals.iter().map(|b| *b as u8).collect()) }
    }

    pub fn encode(&self) -> Pb {
        let mut p = Pb::new();
        for d in &self.dims {
            p.int64_field(1, *d);
        }
        p.varint_field(2, self.dtype as i64 as u64);
        match &self.data {
            TensorData::Raw(b) => p.bytes_field(9, b),
            TensorData::F32(v) => {
                let mut raw = Vec::new();
                for x in v {
                    raw.extend(x.to_le_bytes());
                }
                p.bytes_field(4, &raw);
            }
            TensorData::I32(v) => p.packed_varints(5, &v.iter().map(|x| *x as i64 as u64).collect::<Vec<_>>()),
            TensorData::I64(v) => p.packed_varints(7, &v.iter().map(|x| *x as u64).collect::<Vec<_>>()),
            TensorData::F64(v) => {
                let mut raw = Vec::new();
                for x in v {
                    raw.extend(x.to_le_bytes());
                }
                p.bytes_field(10, &raw);
            }
            TensorData::I64Unpacked(v) => {
                for x in v {
                    p.int64_field(7, *x);
                }
            }
            TensorData::F32Unpacked(v) => {
                for x in v {
                    p.float_field(4, *x);
                }
            }
            TensorData::External { location, offset, length, extra } => {
                let mut kv = |k: &str, v: &str| {
                    let mut e = Pb::new();
                    e.string_field(1, k);
                    e.string_field(2, v);
                    p.message_field(13, &e);
                };
                kv("location", location);
                if let Some(o) = offset {
                    kv("offset", o);
                }
                if let Some(l) = length {
                    kv("length", l);
                }
                for (k, v) in extra {
                    kv(k, v);
                }
                p.varint_field(14, 1);
            }
            TensorData::None => {}
        }
        if !self.name.is_empty() {
            p.string_field(8, &self.name);
        }
        p
    }
}

#[derive(Clone, Debug, Serialize, Deserialize, PartialEq)]
pub enum Attr {
    Int(i64),
    Float(f32),
    Str(String),
    Ints(Vec<i64>),
    Floats(Vec<f32>),
    Strings(Vec<String>),
    Tensor(Tensor),
    Graph(Graph),
}

#[derive(Clone, Debug, Default, Serialize, Deserialize, PartialEq)]
pub struct Node {
    pub op_type: String,
    pub name: String,
    pub domain: String,
    pub inputs: Vec<String>,
    pub outputs: Vec<String>,
    pub attrs: Vec<(String, Attr)>,
}

impl Node {
    pub fn new(op_type: &str, inputs: &[&str], outputs: &[&str]) -> Node {
        Node {
            op_type: op_type.into(),
            name: String::new(),
            domain: String::new(),
            inputs: inputs.iter().map(|s| s.to_string()).collect(),
            outputs: outputs.iter().map(|s| s.to_string()).collect(),
            attrs: Vec::new(),
        }
    }
    pub fn attr(mut self, name: &str, a: Attr) -> Node {
        self.attrs.push((name.into(), a));
        self
    }
    pub fn named(mut self, name: &str) -> Node {
        self.name = name.into();
        self
    }
    pub fn encode(&self) -> Pb {
        let mut p = Pb::new();
        for i in &self.inputs {
            p.string_field(1, i);
        }
        for o in &self.outputs {
            p.string_field(2, o);
        }
        if !self.name.is_empty() {
            p.string_field(3, &self.name);
        }
        p.string_field(4, &self.op_type);
        for (name, a) in &self.attrs {
            let mut ap = Pb::new();
            ap.string_field(1, name);
            match a {
                Attr::Int(v) => {
                    ap.int64_field(3, *v);
                    ap.varint_field(20, 2);
                }
                Attr::Float(v) => {
                    ap.float_field(2, *v);
                    ap.varint_field(20, 1);
                }
                Attr::Str(s) => {
                    ap.string_field(4, s);
                    ap.varint_field(20, 3);
                }
                Attr::Ints(v) => {
                    for x in v {
                        ap.int64_field(8, *x);
                    }
                    ap.varint_field(20, 7);
                }
                Attr::Floats(v) => {
                    for x in v {
                        ap.float_field(7, *x);
                    }
                    ap.varint_field(20, 6);
                }
                Attr::Strings(v) => {
                    for x in v {
                        ap.string_field(9, x);
                    }
                    ap.varint_field(20, 8);
                }
                Attr::Tensor(t) => {
                    ap.message_field(5, &t.encode());
                    ap.varint_field(20, 4);
                }
                Attr::Graph(g) => {
                    ap.message_field(6, &g.encode());
                    ap.varint_field(20, 5);
                }
            }
            p.message_field(5, &ap);
        }
        if !self.domain.is_empty() {
            p.string_field(7, &self.domain);
        }
        p
    }
}

#[derive(Clone, Debug, Serialize, Deserialize, PartialEq)]
pub enum Dim {
    Fixed(i64),
    Sym(String),
    Unknown,
}

#[derive(Clone, Debug, Serialize, Deserialize, PartialEq)]
pub struct ValueInfo {
    pub name: String,
    pub elem_type: Option<i32>,
    pub shape: Option<Vec<Dim>>,
}

impl ValueInfo {
    pub fn new(name: &str, elem_type: i32, shape: &[i64]) -> ValueInfo {
        ValueInfo { name: name.into(), elem_type: Some(elem_type), shape: Some(shape.iter().map(|d| Dim::Fixed(*d)).collect()) }
    }
    pub fn untyped(name: &str) -> ValueInfo {
        ValueInfo { name: name.into(), elem_type: None, shape: None }
    }
    pub fn encode(&self) -> Pb {
        let mut p = Pb::new();
        p.string_field(1, &self.name);
        if self.elem_type.is_some() || self.shape.is_some() {
            let mut tt = Pb::new();
            if let Some(e) = self.elem_type {
                tt.varint_field(1, e as i64 as u64);
            }
            if let Some(shape) = &self.shape {
                let mut sp = Pb::new();
                for d in shape {
                    let mut dp = Pb::new();
                    match d {
                        Dim::Fixed(v) => dp.int64_field(1, *v),
                        Dim::Sym(s) => dp.string_field(2, s),
                        Dim::Unknown => {}
                    }
                    sp.message_field(1, &dp);
                }
                tt.message_field(2, &sp);
            }
            let mut tp = Pb::new();
            tp.message_field(1, &tt);
            p.message_field(2, &tp);
        }
        p
    }
}

#[derive(Clone, Debug, Default, Serialize, Deserialize, PartialEq)]
pub struct Graph {
    pub name: String,
    pub nodes: Vec<Node>,
    pub initializers: Vec<Tensor>,
    pub inputs: Vec<ValueInfo>,
    pub outputs: Vec<ValueInfo>,
    pub value_info: Vec<ValueInfo>,
}

impl Graph {
    pub fn encode(&self) -> Pb {
        let mut p = Pb::new();
        for n in &self.nodes {
            p.message_field(1, &n.encode());
        }
        if !self.name.is_empty() {
            p.string_field(2, &self.name);
        }
        for t in &self.initializers {
            p.message_field(5, &t.encode());
        }
        for v in &self.inputs {
            p.message_field(11, &v.encode());
        }
        for v in &self.outputs {
            p.message_field(12, &v.encode());
        }
        for v in &self.value_info {
            p.message_field(13, &v.encode());
        }
        p
    }
}

#[derive(Clone, Debug, Serialize, Deserialize, PartialEq)]
pub struct Model {
    pub ir_version: i64,
    pub opset: i64,
    pub producer: String,
    pub graph: Graph,
    pub metadata: Vec<(String, String)>,
    /// Extra opset imports `(domain, version)`.
    pub extra_opsets: Vec<(String, i64)>,
    /// Add fields the decoder does not know (doc strings, groups) for coverage.
    pub unknown_fields: bool,
}

impl Model {
    pub fn new(graph: Graph) -> Model {
        Model { ir_version: 8, opset: 21, producer: "simenc".into(), graph, metadata: vec![], extra_opsets: vec![], unknown_fields: false }
    }
    pub fn encode_pb(&self) -> Pb {
        let mut p = Pb::new();
        p.int64_field(1, self.ir_version);
        if !self.producer.is_empty() {
            p.string_field(2, &self.producer);
            p.string_field(3, "1.0");
        }
        if self.unknown_fields {
            p.string_field(6, "a doc string the decoder skips");
            p.varint_field(5, 7);
            p.fixed64_field(30, [1, 2, 3, 4, 5, 6, 7, 8]);
            p.fixed32_field(31, [1, 2, 3, 4]);
            p.group_markers(32);
        }
        let mut os = Pb::new();
        os.string_field(1, "");
        os.int64_field(2, self.opset);
        p.message_field(8, &os);
        for (d, v) in &self.extra_opsets {
            let mut os = Pb::new();
            os.string_field(1, d);
            os.int64_field(2, *v);
            p.message_field(8, &os);
        }
        p.message_field(7, &self.graph.encode());
        for (k, v) in &self.metadata {
            let mut e = Pb::new();
            e.string_field(1, k);
            e.string_field(2, v);
            p.message_field(14, &e);
        }
        p
    }
    pub fn encode(&self) -> Vec<u8> {
        self.encode_pb().buf
    }
}

/// A `GraphProto` nested `depth` times through
/// `GraphProto.node -> NodeProto.attribute -> AttributeProto.g`, wrapped in a
/// `ModelProto`. Sizes are computed bottom-up and headers emitted top-down, so
/// the cost is linear in `depth`.
pub fn nested_graph_model(depth: usize) -> Vec<u8> {
    fn vl(v: u64) -> u64 {
        varint(v).len() as u64
    }
    // lens[i] = (graph_len, node_len, attr_len) at nesting level i (1-based)
    let mut lens: Vec<(u64, u64, u64)> = Vec::with_capacity(depth);
    let mut g: u64 = 0;
    for _ in 0..depth {
        let attr = 1 + vl(g) + g;
        let node = 1 + vl(attr) + attr;
        let graph = 1 + vl(node) + node;
        lens.push((g, node, attr));
        g = graph;
    }
    let mut model = Vec::new();
    model.extend(varint(1 << 3));
    model.extend(varint(8));
    model.extend(varint((7 << 3) | 2));
    model.extend(varint(g));
    for (inner_g, node, attr) in lens.iter().rev() {
        model.extend(varint((1 << 3) | 2));
        model.extend(varint(*node));
        model.extend(varint((5 << 3) | 2));
        model.extend(varint(*attr));
        model.extend(varint((6 << 3) | 2));
        model.extend(varint(*inner_g));
    }
    model
}

#[cfg(test)]
mod tests {
    use super::*;
    #[test]
    fn nested_sizes() {
        let m = nested_graph_model(3);
        // ir_version(2) + graph tag/len(2) + 3 levels of 6 header bytes
        assert_eq!(m.len(), 2 + 2 + 18);
        let big = nested_graph_model(100_000);
        assert!(big.len() > 600_000 && big.len() < 2_000_000);
    }
}
